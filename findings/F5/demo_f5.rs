#![cfg(feature = "inventory")]
//! Probe of baseline behaviour (not a deliverable).
use salsa::Setter;

#[salsa::input]
struct G {
    #[returns(clone)]
    ea: Vec<u8>,
    #[returns(clone)]
    eb: Vec<u8>,
    #[returns(clone)]
    ec: Vec<u8>,
    unrelated: u32,
}

const FB_A: u32 = 1000;
const FB_B: u32 = 2000;
const FB_C: u32 = 3000;

fn call(db: &dyn salsa::Database, g: G, w: u8) -> u32 {
    match w {
        0 => a(db, g),
        1 => b(db, g),
        2 => c(db, g),
        _ => unreachable!(),
    }
}

#[salsa::tracked(returns(copy), cycle_result=fb_a)]
fn a(db: &dyn salsa::Database, g: G) -> u32 {
    1 + g.ea(db).iter().map(|&w| call(db, g, w)).sum::<u32>()
}
fn fb_a(_db: &dyn salsa::Database, _id: salsa::Id, _g: G) -> u32 {
    FB_A
}

#[salsa::tracked(returns(copy), cycle_result=fb_b)]
fn b(db: &dyn salsa::Database, g: G) -> u32 {
    10 + g.eb(db).iter().map(|&w| call(db, g, w)).sum::<u32>()
}
fn fb_b(_db: &dyn salsa::Database, _id: salsa::Id, _g: G) -> u32 {
    FB_B
}

#[salsa::tracked(returns(copy), cycle_result=fb_c)]
fn c(db: &dyn salsa::Database, g: G) -> u32 {
    100 + g.ec(db).iter().map(|&w| call(db, g, w)).sum::<u32>()
}
fn fb_c(_db: &dyn salsa::Database, _id: salsa::Id, _g: G) -> u32 {
    FB_C
}

#[test]
fn probe_unrelated_change_then_participant() {
    let mut db = salsa::DatabaseImpl::default();
    let g = G::new(&db, vec![1], vec![0], vec![], 0);
    assert_eq!(a(&db, g), FB_A);
    g.set_unrelated(&mut db).to(1);
    assert_eq!(b(&db, g), FB_B);
    assert_eq!(a(&db, g), FB_A);
}

#[test]
fn probe_unrelated_change_then_participant_validated() {
    let mut db = salsa::DatabaseImpl::default();
    let g = G::new(&db, vec![1], vec![0], vec![], 0);
    assert_eq!(a(&db, g), FB_A);
    assert_eq!(b(&db, g), FB_B);
    g.set_unrelated(&mut db).to(1);
    assert_eq!(b(&db, g), FB_B);
    assert_eq!(a(&db, g), FB_A);
}

#[test]
fn probe_nested_all_orders() {
    for order in [[0u8, 1, 2], [0, 2, 1], [1, 0, 2], [1, 2, 0], [2, 0, 1], [2, 1, 0]] {
        let db = salsa::DatabaseImpl::default();
        let g = G::new(&db, vec![1], vec![2], vec![1, 0], 0);
        for w in order {
            let expected = [FB_A, FB_B, FB_C][w as usize];
            assert_eq!(call(&db, g, w), expected, "order {order:?}, fn {w}");
        }
    }
}
