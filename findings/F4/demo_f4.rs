#![cfg(feature = "inventory")]

//! F4 (unchanged tree): a consumer that read a *specified* value is not re-executed when the
//! specified function switches to its *computed* value.
//!
//! Revision 1: `creator` creates `t` and specifies `extra(t) = 2222`; `consumer` = extra(creator()) = 2222.
//! Revision 2: `flag` off; `creator` re-executes, re-creates the same `t`, does NOT specify; its
//!             own result (`t`) is equal, so it is backdated.  `extra(t)` now computes 11.
//! `consumer(input)` must be 11 (that is what a fresh database answers), but the memoized 2222 is
//! returned: the recomputed `extra(t)` memo's changed_at reflects only `t.field` (unchanged).

mod common;
use common::LogDatabase;
use salsa::Setter;

#[salsa::input]
struct MyInput {
    #[returns(copy)]
    flag: bool,
}

#[salsa::tracked]
struct MyTracked<'db> {
    #[returns(copy)]
    field: u32,
}

#[salsa::tracked(returns(copy), specify)]
fn extra<'db>(db: &'db dyn LogDatabase, t: MyTracked<'db>) -> u32 {
    t.field(db) + 1
}

#[salsa::tracked(returns(copy))]
fn creator<'db>(db: &'db dyn LogDatabase, input: MyInput) -> MyTracked<'db> {
    let t = MyTracked::new(db, 10);
    if input.flag(db) {
        extra::specify(db, t, 2222);
    }
    t
}

#[salsa::tracked(returns(copy))]
fn consumer<'db>(db: &'db dyn LogDatabase, input: MyInput) -> u32 {
    let t = creator(db, input);
    extra(db, t)
}

#[test]
fn consumer_sees_computed_value_once_creator_stops_specifying() {
    let mut db = common::LoggerDatabase::default();
    let input = MyInput::new(&db, true);
    assert_eq!(consumer(&db, input), 2222);

    input.set_flag(&mut db).to(false);

    let fresh = common::LoggerDatabase::default();
    let fresh_input = MyInput::new(&fresh, false);
    assert_eq!(consumer(&fresh, fresh_input), 11);

    // incremental result must equal the from-scratch result
    assert_eq!(consumer(&db, input), consumer(&fresh, fresh_input));
}
