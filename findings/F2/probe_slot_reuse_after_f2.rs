#![cfg(feature = "inventory")]

//! Probe (NOT a mutant demo): does the *unchanged* tree alias a reclaimed tracked-struct slot
//! when the `salsa_event` callback panics between the deletion of two stale tracked structs?
//!
//! `diff_outputs` deletes stale structs one by one (pushing each slot to the free list) and
//! only afterwards is the new memo inserted. If the callback panics on the second
//! `WillDiscardStaleOutput`, the first struct is already deleted and its slot is in the free
//! list, but the creator's *old* memo (which still lists that struct) stays in place.

use std::panic::{AssertUnwindSafe, catch_unwind};
use std::sync::Arc;
use std::sync::atomic::{AtomicUsize, Ordering};

use salsa::{Database, Setter, Storage};

#[salsa::db]
#[derive(Clone)]
struct Db {
    storage: Storage<Self>,
    /// Panic when this counter reaches 1 on a `WillDiscardStaleOutput` event (0 = disarmed).
    countdown: Arc<AtomicUsize>,
}

impl Default for Db {
    fn default() -> Self {
        let countdown = Arc::new(AtomicUsize::new(0));
        Self {
            storage: Storage::new(Some(Box::new({
                let countdown = countdown.clone();
                move |event| {
                    if let salsa::EventKind::WillDiscardStaleOutput { .. } = event.kind {
                        let c = countdown.load(Ordering::SeqCst);
                        if c > 0 {
                            countdown.store(c - 1, Ordering::SeqCst);
                            if c == 1 {
                                panic!("salsa_event callback panicked");
                            }
                        }
                    }
                }
            }))),
            countdown,
        }
    }
}

#[salsa::db]
impl Database for Db {}

#[salsa::input]
struct In {
    #[returns(copy)]
    n: usize,
}

#[salsa::tracked]
struct Node<'db> {
    #[returns(copy)]
    tag: usize,
}

#[salsa::tracked(returns(clone))]
fn make_a(db: &dyn Database, input: In) -> Vec<Node<'_>> {
    (0..input.n(db)).map(|i| Node::new(db, 100 + i)).collect()
}

#[salsa::tracked(returns(copy))]
fn make_b(db: &dyn Database, input: In) -> Node<'_> {
    Node::new(db, input.n(db))
}

#[salsa::tracked(returns(copy))]
fn make_c(db: &dyn Database, input: In) -> Node<'_> {
    Node::new(db, input.n(db))
}

#[test]
fn probe() {
    let mut db = Db::default();
    let in_a = In::new(&db, 2);
    let in_b = In::new(&db, 111);
    let in_c = In::new(&db, 222);

    assert_eq!(make_a(&db, in_a).len(), 2);

    // R2: `make_a` creates nothing any more; panic on the 2nd `WillDiscardStaleOutput`.
    in_a.set_n(&mut db).to(0);
    db.countdown.store(2, Ordering::SeqCst);
    let r = catch_unwind(AssertUnwindSafe(|| make_a(&db, in_a)));
    assert!(r.is_err());

    let t = make_b(&db, in_b);
    assert_eq!(t.tag(&db), 111);

    // R3: retry `make_a`.
    in_a.set_n(&mut db).to(0);
    assert_eq!(make_a(&db, in_a).len(), 0);

    let u = make_c(&db, in_c);
    assert_eq!(u.tag(&db), 222);

    let t = make_b(&db, in_b);
    assert_eq!(t.tag(&db), 111, "`make_b`'s struct was deleted and its id re-issued");
}
