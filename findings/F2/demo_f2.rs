#![cfg(feature = "inventory")]
//! F2 (C22, known finding): a panic in the event callback while stale tracked structs are being
//! discarded (diff_outputs / delete_entity / clear_memos) leaves already-deleted structs listed
//! in the OLD memo, which stays in place; every retry then panics with
//! "cannot delete write-locked id" - also in later revisions.

use std::panic::{catch_unwind, AssertUnwindSafe};
use std::sync::atomic::{AtomicUsize, Ordering};
use std::sync::Arc;

use salsa::{Database, Setter};

#[salsa::db]
#[derive(Clone)]
struct Db {
    storage: salsa::Storage<Self>,
}

#[salsa::db]
impl salsa::Database for Db {}

#[salsa::input]
struct Input {
    #[returns(copy)]
    n: usize,
}

#[salsa::tracked]
struct Node<'db> {
    #[returns(copy)]
    i: usize,
}

#[salsa::tracked(returns(copy))]
fn make(db: &dyn Database, input: Input) -> usize {
    (0..input.n(db)).map(|i| Node::new(db, i).i(db)).sum()
}

fn db_panicking_on_nth_discard(countdown: Arc<AtomicUsize>) -> Db {
    Db {
        storage: salsa::Storage::new(Some(Box::new(move |e: salsa::Event| {
            if let salsa::EventKind::WillDiscardStaleOutput { .. } = e.kind {
                let c = countdown.load(Ordering::SeqCst);
                if c > 0 {
                    countdown.store(c - 1, Ordering::SeqCst);
                    if c == 1 {
                        panic!("event callback panic");
                    }
                }
            }
        }))),
    }
}

#[test]
fn event_panic_on_second_stale_output_wedges_the_query() {
    let countdown = Arc::new(AtomicUsize::new(0));
    let mut db = db_panicking_on_nth_discard(countdown.clone());
    let input = Input::new(&db, 3);
    assert_eq!(make(&db, input), 3);

    // the next execution creates no structs: 3 stale outputs; the callback panics at the 2nd
    input.set_n(&mut db).to(0);
    countdown.store(2, Ordering::SeqCst);
    assert!(catch_unwind(AssertUnwindSafe(|| make(&db, input))).is_err());

    // the panic no longer occurs, yet the retry (same revision) must succeed like a fresh database
    countdown.store(0, Ordering::SeqCst);
    assert_eq!(make(&db, input), 0);
    input.set_n(&mut db).to(1);
    assert_eq!(make(&db, input), 0);
}

#[salsa::tracked(returns(copy))]
fn on_node<'db>(db: &'db dyn Database, node: Node<'db>) -> usize {
    node.i(db) + 1
}

#[salsa::tracked(returns(copy))]
fn make_and_use(db: &dyn Database, input: Input) -> usize {
    (0..input.n(db)).map(|i| on_node(db, Node::new(db, i))).sum()
}

#[test]
fn event_panic_while_clearing_memos_of_a_deleted_struct_wedges_the_query() {
    // W2: the DidDiscard event for a memo attached to the deleted struct is raised after the
    // struct was tombstoned (updated_at == None) and before it is pushed to the free list.
    let countdown = Arc::new(AtomicUsize::new(0));
    let c2 = countdown.clone();
    let mut db = Db {
        storage: salsa::Storage::new(Some(Box::new(move |e: salsa::Event| {
            if let salsa::EventKind::DidDiscard { .. } = e.kind {
                let c = c2.load(Ordering::SeqCst);
                if c > 0 {
                    c2.store(c - 1, Ordering::SeqCst);
                    if c == 1 {
                        panic!("event callback panic");
                    }
                }
            }
        }))),
    };
    let input = Input::new(&db, 1);
    assert_eq!(make_and_use(&db, input), 1);
    input.set_n(&mut db).to(0);
    // 1st DidDiscard: the struct itself (before the tombstone); 2nd: its memo (inside the window)
    countdown.store(2, Ordering::SeqCst);
    assert!(catch_unwind(AssertUnwindSafe(|| make_and_use(&db, input))).is_err());
    countdown.store(0, Ordering::SeqCst);
    assert_eq!(make_and_use(&db, input), 0);
}
