#![cfg(feature = "inventory")]
//! F1 (C22): a panic in a tracked field's `PartialEq` while a tracked struct is being updated
//! left the struct write-locked forever ("two concurrent writers ... should not be possible").

use std::panic::{catch_unwind, AssertUnwindSafe};
use std::sync::atomic::{AtomicBool, Ordering};

use salsa::{Database, Setter};

static PANIC_IN_EQ: AtomicBool = AtomicBool::new(false);

#[salsa::input]
struct MyInput {
    #[returns(copy)]
    field: u32,
}

#[derive(Eq, Hash, Debug, Clone, salsa::SalsaValue)]
struct Flaky(u32);

impl PartialEq for Flaky {
    fn eq(&self, other: &Self) -> bool {
        if PANIC_IN_EQ.swap(false, Ordering::SeqCst) {
            panic!("flaky eq");
        }
        self.0 == other.0
    }
}

#[salsa::tracked]
struct MyTracked<'db> {
    #[tracked]
    field: Flaky,
}

#[salsa::tracked(returns(copy))]
fn make(db: &dyn Database, input: MyInput) -> MyTracked<'_> {
    MyTracked::new(db, Flaky(input.field(db)))
}

#[salsa::tracked(returns(copy))]
fn read(db: &dyn Database, input: MyInput) -> u32 {
    make(db, input).field(db).0
}

#[test]
fn panic_in_field_eq_does_not_wedge_the_struct() {
    let mut db = salsa::DatabaseImpl::new();
    let input = MyInput::new(&db, 1);
    assert_eq!(read(&db, input), 1);

    input.set_field(&mut db).to(2);
    PANIC_IN_EQ.store(true, Ordering::SeqCst);
    let r = catch_unwind(AssertUnwindSafe(|| read(&db, input)));
    assert!(r.is_err(), "the panic reaches the caller");

    // the panic no longer occurs: same revision ...
    assert_eq!(read(&db, input), 2);
    // ... and a later revision
    input.set_field(&mut db).to(3);
    assert_eq!(read(&db, input), 3);
}
