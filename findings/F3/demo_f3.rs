#![cfg(feature = "inventory")]
//! F3 (C22): a panic in a user `Hash` impl while the interned key map grows (cold insert path) left
//! the new value linked into the LRU list but absent from the key map; a later revision that tried
//! to reuse that slot panicked with "interned value in LRU so must be in key_map".

use std::panic::{catch_unwind, AssertUnwindSafe};
use std::sync::atomic::{AtomicUsize, Ordering};

use salsa::{Database, Setter};

/// `Hash` panics when this counter goes from 1 to 0 (0 = disarmed).
static PANIC_COUNTDOWN: AtomicUsize = AtomicUsize::new(0);

#[salsa::input]
struct Input {
    #[returns(copy)]
    n: usize,
    /// arm the countdown right before interning the value with this index
    #[returns(copy)]
    arm_at: usize,
}

// constant hash: all values land in one shard
#[derive(PartialEq, Eq, Debug, Clone, salsa::SalsaValue)]
struct Key(usize);

impl std::hash::Hash for Key {
    fn hash<H: std::hash::Hasher>(&self, state: &mut H) {
        let c = PANIC_COUNTDOWN.load(Ordering::SeqCst);
        if c > 0 {
            PANIC_COUNTDOWN.store(c - 1, Ordering::SeqCst);
            if c == 1 {
                panic!("flaky hash");
            }
        }
        state.write_i16(0);
    }
}

#[salsa::interned(revisions = 1)]
struct Interned<'db> {
    key: Key,
}

#[salsa::tracked(returns(copy))]
fn intern_many(db: &dyn Database, input: Input) -> usize {
    let n = input.n(db);
    let arm_at = input.arm_at(db);
    let mut sum = 0;
    for i in 0..n {
        if i == arm_at {
            // the first `Hash` call is the lookup of the new key (before the shard lock); the
            // second one, if any, is a re-hash of an existing entry while the key map grows.
            PANIC_COUNTDOWN.store(2, Ordering::SeqCst);
        }
        let v = Interned::new(db, Key(i));
        sum += v.key(db).0;
        if i == arm_at {
            PANIC_COUNTDOWN.store(0, Ordering::SeqCst);
        }
    }
    sum
}

#[test]
fn hash_panic_during_key_map_growth_does_not_orphan_lru_entry() {
    for arm_at in 0..9usize {
        let mut db = salsa::DatabaseImpl::new();
        let input = Input::new(&db, 9, arm_at);
        // interning may panic in `Hash` during the `arm_at`-th insert (only if the map grows there)
        let _ = catch_unwind(AssertUnwindSafe(|| intern_many(&db, input)));
        PANIC_COUNTDOWN.store(0, Ordering::SeqCst);

        // the panic no longer occurs: same revision ...
        input.set_arm_at(&mut db).to(usize::MAX);
        assert_eq!(intern_many(&db, input), (0..9).sum::<usize>());
        // ... and later revisions must behave like a fresh database (no spurious panic)
        for round in 1..5 {
            input.set_n(&mut db).to(9 + round);
            assert_eq!(
                intern_many(&db, input),
                (0..9 + round).sum::<usize>(),
                "arm_at={arm_at} round={round}"
            );
        }
    }
}
