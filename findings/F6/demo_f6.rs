#![cfg(feature = "inventory")]

//! F6 probe (unchanged tree): the untracked read of a plain (non-cycle-handling) query that is
//! flattened into a fixpoint cycle head is forgotten.
//!
//! `head` (fixpoint) calls `plain`; `plain` reads untracked state and calls `head` (so it is a
//! provisional participant whose edges get flattened into `head`'s origin).  After the untracked
//! state changes and a new revision starts, `head` must be recomputed (C04: queries that read
//! untracked state - and their dependents - are re-evaluated in every later revision); a fresh
//! database returns the new value.

use std::sync::atomic::{AtomicU32, Ordering};

use salsa::{Database, Setter};

static GLOBAL: AtomicU32 = AtomicU32::new(1);

#[salsa::input]
struct In {
    unrelated: u32,
}

#[salsa::tracked(returns(copy), cycle_initial = head_initial)]
fn head(db: &dyn Database, i: In) -> u32 {
    plain(db, i)
}

fn head_initial(_db: &dyn Database, _id: salsa::Id, _i: In) -> u32 {
    0
}

#[salsa::tracked(returns(copy))]
fn plain(db: &dyn Database, i: In) -> u32 {
    db.report_untracked_read();
    let g = GLOBAL.load(Ordering::SeqCst);
    head(db, i).max(g)
}

/// control: the same untracked read without a cycle
#[salsa::tracked(returns(copy))]
fn plain_no_cycle(db: &dyn Database, _i: In) -> u32 {
    db.report_untracked_read();
    GLOBAL.load(Ordering::SeqCst)
}

#[salsa::tracked(returns(copy))]
fn consumer_no_cycle(db: &dyn Database, i: In) -> u32 {
    plain_no_cycle(db, i)
}

#[test]
fn untracked_read_inside_a_cycle_is_re_evaluated_in_later_revisions() {
    GLOBAL.store(1, Ordering::SeqCst);
    let mut db = salsa::DatabaseImpl::default();
    let i = In::new(&db, 0);
    assert_eq!(head(&db, i), 1);
    assert_eq!(consumer_no_cycle(&db, i), 1);

    GLOBAL.store(2, Ordering::SeqCst);
    i.set_unrelated(&mut db).to(1);

    // control: without a cycle the dependent of an untracked query sees the new state
    assert_eq!(consumer_no_cycle(&db, i), 2);

    let fresh = salsa::DatabaseImpl::default();
    let fi = In::new(&fresh, 1);
    assert_eq!(head(&fresh, fi), 2);

    assert_eq!(head(&db, i), 2, "incremental result must equal the from-scratch result");
}
