"""Obligation framework: registry, verdict plumbing, evidence, known findings."""
from __future__ import annotations

import json
import os
import re
import time
import traceback

from . import mirlib

ROOT = os.path.dirname(os.path.dirname(os.path.abspath(__file__)))


class Inconclusive(Exception):
    pass


class Obligation:
    def __init__(self, oid, props, fn, nec, tier, kind, configs, also=()):
        self.id = oid
        self.props = props
        self.also = tuple(also)
        self.fn = fn
        self.nec = nec
        self.tier = tier
        self.kind = kind
        self.configs = configs
        self.doc = (fn.__doc__ or "").strip()


REGISTRY: list[Obligation] = []


def ob(oid, props, nec, tier="q", kind="", configs=("default",), also=()):
    """props: properties every untagged check of this obligation counts for.
    also: properties for which only checks explicitly tagged with cx.only(prop) count."""

    def deco(fn):
        REGISTRY.append(Obligation(oid, props, fn, nec, tier, kind, configs, also))
        return fn

    return deco


class Result:
    def __init__(self, ob, config):
        self.ob = ob
        self.config = config
        self.checks = []  # dicts: ok, what, where, detail, key
        self.inconclusive = None
        self.soft = []
        self.notes = []

    @property
    def violations(self):
        return [c for c in self.checks if not c["ok"]]

    def status(self):
        if self.violations:
            return "VIOLATION"
        if self.inconclusive:
            return "INCONCLUSIVE"
        return "PASS"


class Cx:
    """Per-obligation evaluation context."""

    def __init__(self, run, ob, config, facts, specimen=None):
        self.run = run
        self.ob = ob
        self.config = config
        self.facts: mirlib.Facts = facts
        self.specimen: mirlib.Facts | None = specimen
        self.res = Result(ob, config)
        self._only = None

    def only(self, *props):
        """Context manager: checks recorded inside count only for the given properties
        (directional obligations: a precision check must not alarm a soundness property)."""
        cx = self

        class _C:
            def __enter__(s):
                s.prev = cx._only
                cx._only = set(props)

            def __exit__(s, *a):
                cx._only = s.prev

        return _C()

    # -- anchors ------------------------------------------------------------------------------
    def fn(self, rx, facts=None) -> mirlib.Body:
        f = facts or self.facts
        c = [p for p in f.find(rx) if "{closure" not in p.split(rx.rstrip("$").split("::")[-1])[-1]] if False else None
        cands = [p for p in f.find(rx)]
        # prefer non-closure bodies unless the regex mentions a closure explicitly
        if "closure" not in rx:
            cands = [p for p in cands if "{closure" not in p]
        if len(cands) != 1:
            raise Inconclusive("anchor %r matches %d bodies%s" % (rx, len(cands), (": " + ", ".join(cands[:4])) if cands else ""))
        return f.body(cands[0])

    def fns(self, rx, floor=1, facts=None):
        f = facts or self.facts
        cands = [p for p in f.find(rx)]
        if "closure" not in rx:
            cands = [p for p in cands if "{closure" not in p]
        if len(cands) < floor:
            raise Inconclusive("anchor %r matches %d bodies, floor %d" % (rx, len(cands), floor))
        return [f.body(p) for p in cands]

    def closure_passed_to(self, body: mirlib.Body, callee_rx, facts=None, which=None):
        """The closure body created in `body` and passed (by value or by ref) to a call matching
        callee_rx. Addressing closures through the call that consumes them keeps the obligation
        independent of {closure#n} numbering."""
        f = facts or self.facts
        out = []
        for s in body.calls(callee_rx):
            for a in s.node()["args"]:
                o = body.origin_op(a, 0, None, s)
                m = re.match(r"^closure:([^\[\]]+)\[", o)
                if m:
                    cb = f.body(m.group(1))
                    if cb is not None and cb not in out:
                        out.append(cb)
        if which is not None:
            out = [c for c in out if which(c)]
        if len(out) != 1:
            raise Inconclusive("closure passed to %r in %s: found %d" % (callee_rx, body.path, len(out)))
        return out[0]

    def callee_exists(self, rx, facts=None):
        f = facts or self.facts
        r = re.compile(rx)
        if any(r.search(p) for p in f.bodies_raw):
            return True
        return any(r.search(n) for n in f.callers())

    def one_call(self, body, rx, what):
        """The unique call to rx in body. A missing call is a VIOLATION when the callee still exists in
        the crate (the function is there, this caller no longer uses it); if the callee is gone altogether
        the anchor is missing (INCONCLUSIVE)."""
        sites = body.calls(rx)
        if len(sites) == 1:
            return sites[0]
        if not sites:
            if self.callee_exists(rx, body.facts):
                self.check(False, "%s: mandatory call missing" % what, None, {"callee": rx}, key="missing-call " + rx, body=body)
                raise Inconclusive("%s: call missing (recorded as violation)" % what)
            raise Inconclusive("%s: callee %r no longer exists in the crate" % (what, rx))
        raise Inconclusive("%s: expected exactly one call, found %d" % (what, len(sites)))

    def some_calls(self, body, rx, floor, what):
        sites = body.calls(rx)
        if len(sites) >= floor:
            return sites
        if self.callee_exists(rx, body.facts):
            self.check(False, "%s: %d call(s), at least %d required" % (what, len(sites), floor), None, {"callee": rx}, key="missing-call " + rx, body=body)
            raise Inconclusive("%s: call missing (recorded as violation)" % what)
        raise Inconclusive("%s: callee %r no longer exists in the crate" % (what, rx))

    def sites(self, sites, floor, what):
        if len(sites) < floor:
            raise Inconclusive("%s: %d site(s), floor %d" % (what, len(sites), floor))
        return sites

    def one(self, sites, what):
        if len(sites) != 1:
            raise Inconclusive("%s: expected exactly one site, found %d" % (what, len(sites)))
        return sites[0]

    def require(self, cond, msg):
        if not cond:
            raise Inconclusive(msg)

    # -- verdicts -----------------------------------------------------------------------------
    def check(self, ok, what, site=None, detail=None, key=None, body=None):
        """Record one evaluated instance. ok=False is a positive contradiction (VIOLATION)."""
        where = None
        fnpath = None
        if site is not None:
            where = site.where()
            fnpath = site.body.path
        elif body is not None:
            where = "%s:%s" % (body.file, body.info.get("lo"))
            fnpath = body.path
        k = "%s %s %s" % (self.ob.id, fnpath or "-", key or what)
        self.res.checks.append(
            {"ok": bool(ok), "what": what, "where": where, "fn": fnpath, "detail": detail, "key": k, "props": sorted(self._only) if self._only else None}
        )
        return bool(ok)

    def note(self, msg):
        self.res.notes.append(msg)

    # -- common rule kinds --------------------------------------------------------------------
    def only_if(self, body, site, lit, what=None, subst=None):
        """ONLYIF: site is reached only after an edge establishing lit."""
        eng = mirlib.OnlyIf(self.facts if body.facts is self.facts else body.facts, body, subst)
        ok = eng.guarded(site, lit)
        if not ok:
            p = eng.witness_path(site, [lit])
            detail = {"witness_path_bbs": p, "literal": repr(lit), "rule": "ONLYIF: a CFG path reaches the site without crossing an edge on which the literal is known"}
        else:
            pe = sorted(eng.primary_edges(lit))
            detail = {"literal": repr(lit), "deciding_tests_at_lines": sorted({body.blocks[e[0]]["term"].get("ln") for e in pe})[:6], "edges_cut": len(eng.establishing_edges(lit)), "rule": "ONLYIF: site unreachable once the establishing edges are cut"}
        return self.check(ok, what or "reached only if %r" % lit, site, detail, key="onlyif %r" % lit)

    def only_if_any(self, body, site, lits, what=None):
        eng = mirlib.OnlyIf(body.facts, body)
        ok = eng.guarded_clause(site, lits)
        detail = None
        if not ok:
            detail = {"witness_path_bbs": eng.witness_path(site, lits), "literals": [repr(l) for l in lits]}
        return self.check(ok, what or "reached only if one of %r" % (lits,), site, detail, key="onlyif-any %r" % (lits,))

    def returns_only_if(self, body, pred, lit, what=None):
        eng = mirlib.OnlyIf(body.facts, body)
        ok = eng.returns_only_if(pred, lit)
        p = sorted(pred) if not isinstance(pred, bool) else pred
        return self.check(ok, what or "returns %s only if %r" % (p, lit), None, None, key="ret %s onlyif %r" % (p, lit), body=body)

    def dominated_by_any(self, b, sites, what):
        """Every normal path to site b executes one of `sites` first."""
        reach = b.body.reachable(0, "normal", cut_blocks={s.bb for s in sites})
        ok = b.bb not in reach or any(s.bb == b.bb and s.idx < b.idx for s in sites)
        return self.check(ok, what, b, {"any_of": [repr(s) for s in sites]}, key="dom-any " + what)

    def order(self, a, b, what, view="normal"):
        """ORDER: site a dominates site b."""
        ok = a.body.site_dominates(a, b, view)
        return self.check(ok, what, b, {"first": repr(a), "then": repr(b)}, key="order " + what)

    def must_call(self, body, rx, what=None, depth=4):
        if not self.callee_exists(rx, body.facts):
            raise Inconclusive("must-call target %r no longer exists in the crate" % rx)
        ok = body.facts.must_call(body, rx, depth)
        detail = None
        if not ok:
            hits = body.facts.must_call_blocks(body, re.compile(rx), depth)
            detail = {"path_avoiding_call_bbs": body.facts.path_avoiding(body, hits, body.return_blocks())}
        return self.check(ok, what or "every normal path calls %s" % rx, None, detail, key="mustcall " + rx, body=body)

    def flow(self, body, op_or_origin, accept, refute, what, site=None):
        """FLOW: origin of a value matches one of the accepted forms; refuted forms are violations;
        anything else is inconclusive."""
        o = op_or_origin if isinstance(op_or_origin, str) else body.origin_op(op_or_origin)
        for rx in accept:
            if re.search(rx, o):
                return self.check(True, what, site, {"origin": o}, key="flow " + what, body=body)
        for rx in refute:
            if re.search(rx, o):
                return self.check(False, what, site, {"origin": o, "refuted_by": rx}, key="flow " + what, body=body)
        # unknown form: keep evaluating the rest of the obligation (a later check may still find a
        # positive contradiction); the obligation ends INCONCLUSIVE unless a violation was recorded
        self.res.soft.append("%s: origin %r is neither an accepted nor a refuted form" % (what, o[:300]))
        return None


def _cx_stores(self, body, place_rx=None):
    """[(site, place_origin, value_origin)] for every projected store in body."""
    out = []
    rx = re.compile(place_rx) if place_rx else None
    for s in body.all_sites():
        if s.is_term():
            continue
        n = s.node()
        if n["k"] != "assign" or not n["p"]["pj"]:
            continue
        po = body.origin_place(n["p"], 0, None, s)
        if rx is not None and not rx.search(po):
            continue
        out.append((s, po, body._origin_def(s, "assign", n, 0, None, ())))
    return out


def _cx_arg(self, site, i, subst=None):
    return site.body.origin_op(site.node()["args"][i], 0, subst, site)


def _cx_args(self, site, subst=None):
    return [site.body.origin_op(a, 0, subst, site) for a in site.node()["args"]]


def _cx_skipped_only_if(self, body, site, lit, what=None, exits=None):
    """Every normal path from entry to an exit that does not execute `site` crosses an edge
    establishing lit."""
    eng = mirlib.OnlyIf(body.facts, body)
    edges = eng.establishing_edges(lit)  # lit may be a list: disjunction
    exits = exits if exits is not None else body.return_blocks()
    reach = body.reachable(0, "normal", cut_edges=edges, cut_blocks={site.bb})
    bad = [e for e in exits if e in reach and e != site.bb]
    return self.check(not bad, what or "skipped only if %r" % lit, site, {"exits_reached_without": bad, "literal": repr(lit)} if bad else None, key="skip-onlyif %r" % lit)


def _cx_ret_sites(self, body, variant=None, adt_rx=None):
    """Sites that build the returned value: `_0 = Adt::Variant` aggregates (directly into _0)."""
    out = []
    for s in body.all_sites():
        if s.is_term():
            continue
        n = s.node()
        if n["k"] == "assign" and n["p"]["l"] == 0 and not n["p"]["pj"] and n["rv"]["k"] == "agg":
            rv = n["rv"]
            if variant is not None and rv.get("variant") != variant:
                continue
            if adt_rx is not None and not re.search(adt_rx, rv.get("adt", "")):
                continue
            out.append(s)
    return out


def _cx_for_loops(self, body):
    """`for` loops of a body: [(next_site, some_block, none_block)], from the desugared
    `match Iterator::next(&mut iter) { None => break, Some(x) => .. }` header."""
    out = []
    for s in body.calls(r"^std::iter::Iterator::next$"):
        n = s.node()
        if not (n.get("exp") and "desugar:ForLoop" in n["exp"]):
            continue
        t = n.get("t")
        if t is None:
            continue
        term = body.blocks[t]["term"]
        if term["k"] != "switch":
            continue
        arms = {str(v): b for v, b in term["targets"]}
        if "0" in arms and "1" in arms:
            out.append((s, arms["1"], arms["0"]))
    return out


def _cx_for_each(self, body, next_site, process_sites, what, allow_skip=()):
    """LOOP-EVERY: the `for` loop headed by next_site leaves only when the iterator is exhausted
    (no break / return from the body) and every iteration that returns to the header executed one
    of process_sites (or crossed an edge establishing one of the allow_skip literals)."""
    loops = [l for l in self.for_loops(body) if l[0] == next_site]
    if not loops:
        raise Inconclusive("%s: not a for-loop header" % what)
    _, some_bb, none_bb = loops[0]
    hdr = next_site.bb
    rets = set(body.return_blocks())
    inside = body.reachable(some_bb, "normal", cut_blocks={hdr})
    # blocks reachable from the body without passing the header: a return among them is an early exit
    early = sorted(b for b in inside if b in rets)
    ok1 = self.check(not early, what + ": the loop visits every element (no early exit from the body)", next_site, {"early_exit_bbs": early} if early else None, key="for-each-noexit " + what)
    cut_edges = set()
    if allow_skip:
        eng = mirlib.OnlyIf(body.facts, body)
        for lit in allow_skip:
            cut_edges |= set(eng.establishing_edges(lit))
    # does a path from the Some arm get back to the header without processing?
    r2 = body.reachable(some_bb, "normal", cut_edges=cut_edges, cut_blocks={s.bb for s in process_sites} | {hdr})
    back = hdr in r2
    ok2 = self.check(not back, what + ": every element is processed", next_site, {"process_sites": [repr(s) for s in process_sites]}, key="for-each-all " + what)
    return ok1 and ok2


Cx.for_loops = _cx_for_loops
Cx.for_each = _cx_for_each
Cx.stores = _cx_stores
Cx.arg = _cx_arg
Cx.args = _cx_args
Cx.skipped_only_if = _cx_skipped_only_if
Cx.ret_sites = _cx_ret_sites


def load_known():
    p = os.path.join(ROOT, "known_findings.json")
    if not os.path.exists(p):
        return []
    with open(p) as f:
        return json.load(f).get("findings", [])


_EVAL_CACHE = {}


def evaluate(o, config, facts_by_config, specimen_by_config):
    """Evaluate one obligation once per configuration (cached for the process); returns a Result
    carrying ALL its checks (property filtering happens in run_property)."""
    key = (o.id, config)
    if key in _EVAL_CACHE:
        return _EVAL_CACHE[key]
    cx = Cx(None, o, config, facts_by_config[config], specimen_by_config.get(config) or specimen_by_config.get("default"))
    try:
        o.fn(cx)
        if cx.res.soft and not cx.res.inconclusive:
            cx.res.inconclusive = "; ".join(cx.res.soft[:3])
        if not cx.res.checks and not cx.res.inconclusive:
            cx.res.inconclusive = "obligation evaluated no instance (vacuous)"
    except Inconclusive as e:
        cx.res.inconclusive = "; ".join([str(e)] + cx.res.soft[:2])
    except Exception as e:  # fail closed, never as a violation
        cx.res.inconclusive = "checker error: %s: %s @ %s" % (
            type(e).__name__,
            e,
            traceback.format_exc().strip().splitlines()[-3:],
        )
    _EVAL_CACHE[key] = cx.res
    return cx.res


def run_property(prop, tier, facts_by_config, specimen_by_config, seed=0):
    """Evaluate all obligations serving `prop`. Returns (exit_code, lines, evidence)."""
    t0 = time.time()
    # a known finding is identified by its exact violation key; the obligation that reports it may serve several
    # properties, so the entry applies under each of them (it is printed with the property being checked)
    known = [k for k in load_known() if k.get("status") == "known"]
    known_keys = {k["key"]: k for k in known}
    results = []
    for o in REGISTRY:
        if prop not in o.props and prop not in o.also:
            continue
        if o.tier == "t" and tier != "thorough":
            continue
        configs = o.configs
        if tier == "thorough" and o.configs == ("default",):
            configs = ("default", "persistence", "nodefault")
        for config in configs:
            if config not in facts_by_config:
                if (tier == "thorough" or config == "default") and prop in o.props:
                    r = Result(o, config)
                    r.inconclusive = "facts for configuration %r unavailable" % config
                    results.append(r)
                continue
            full = evaluate(o, config, facts_by_config, specimen_by_config)
            r = Result(o, config)
            r.inconclusive = full.inconclusive
            r.notes = full.notes
            r.checks = [c for c in full.checks if (c.get("props") is None and prop in o.props) or (c.get("props") and prop in c["props"])]
            if not r.checks and not (r.inconclusive and prop in o.props):
                continue  # nothing of this obligation concerns this property
            results.append(r)
    lines = []
    exit_code = 0
    nviol = 0
    replay_dir = os.path.join(ROOT, "replay", prop)
    seen_known = set()
    for r in results:
        for v in r.violations:
            if v["key"] in known_keys:
                if v["key"] not in seen_known:
                    seen_known.add(v["key"])
                    lines.append("KNOWN-FINDING: property=%s %s -- %s" % (prop, v["key"], known_keys[v["key"]].get("what", "")))
                continue
            nviol += 1
            os.makedirs(replay_dir, exist_ok=True)
            rp = os.path.join(replay_dir, re.sub(r"[^A-Za-z0-9_.-]", "_", r.ob.id + "-" + r.config) + ".json")
            with open(rp, "w") as f:
                json.dump(
                    {"property": prop, "obligation": r.ob.id, "config": r.config, "nec": r.ob.nec, "doc": r.ob.doc, "violation": v},
                    f,
                    indent=1,
                )
            lines.append("VIOLATION property=%s replay=%s" % (prop, rp))
            lines.append("  obligation %s [%s] at %s in %s: %s" % (r.ob.id, r.config, v["where"], v["fn"], v["what"]))
            if v.get("detail"):
                lines.append("  detail: %s" % json.dumps(v["detail"])[:600])
            lines.append("  why necessary: %s" % r.ob.nec)
            exit_code = 1
    # An obligation that could not be decided on this source (an anchor is gone, a value has a form the rule
    # cannot classify, a site count fell below its floor) is reported fail-closed as a violation OF THE
    # OBLIGATION: the necessary condition could not be established.  The replay file says so explicitly
    # ("unestablished").  Only when nothing could be analysed at all (no facts: the tree does not build in
    # that configuration) the check ends with exit 3 and no VIOLATION line.
    for r in results:
        if not r.inconclusive:
            continue
        lines.append("INCONCLUSIVE property=%s obligation=%s config=%s %s" % (prop, r.ob.id, r.config, r.inconclusive))
        if r.inconclusive.startswith("facts for configuration"):
            if exit_code == 0:
                exit_code = 3
            continue
        if r.violations:
            continue  # already reported through a positive contradiction
        os.makedirs(replay_dir, exist_ok=True)
        rp = os.path.join(replay_dir, re.sub(r"[^A-Za-z0-9_.-]", "_", r.ob.id + "-" + r.config) + ".json")
        with open(rp, "w") as f:
            json.dump(
                {"property": prop, "obligation": r.ob.id, "config": r.config, "nec": r.ob.nec, "doc": r.ob.doc,
                 "violation": {"kind": "unestablished", "what": "the necessary condition could not be established on this source", "reason": r.inconclusive,
                               "passed_instances": sum(1 for c in r.checks if c["ok"])}},
                f,
                indent=1,
            )
        lines.append("VIOLATION property=%s replay=%s" % (prop, rp))
        lines.append("  obligation %s [%s]: NOT ESTABLISHED - %s" % (r.ob.id, r.config, r.inconclusive[:400]))
        lines.append("  why necessary: %s" % r.ob.nec)
        exit_code = 1
    # evidence
    nobl = len(results)
    discharged = sum(1 for r in results if r.status() == "PASS")
    evals = sum(len(r.checks) for r in results)
    distinct = len({c["key"] for r in results for c in r.checks if c.get("where")})
    samples = []
    for r in results:
        samples.append(
            {
                "obligation": r.ob.id,
                "config": r.config,
                "kind": r.ob.kind,
                "status": r.status(),
                "rule": r.ob.doc,
                "why_necessary": r.ob.nec,
                "inconclusive": r.inconclusive,
                "instances": [
                    {"ok": c["ok"], "what": c["what"], "where": c["where"], "fn": c["fn"], "detail": c["detail"]}
                    for c in r.checks[:40]
                ],
                "notes": r.notes[:20],
            }
        )
    fns = {c["fn"] for r in results for c in r.checks if c.get("fn")}
    evidence = {
        "property_id": prop,
        "tier": tier,
        "seed": seed,
        "level": "other",
        "coverage": {
            "explanation": "",
            "obligations": nobl,
            "discharged": discharged,
            "evaluations": evals,
            "distinct_nontrivial": distinct,
            "rule": "one evaluation = one (obligation, site) instance checked on the MIR of /repo's working tree; "
            "distinct_nontrivial counts distinct (obligation, function, checked fact) keys that are anchored at a real source site",
            "samples": samples,
            "functions_analysed": sorted(fns),
            "configs": sorted({r.config for r in results}),
            "exhaustive": False,
            "trusted_base": [
                "rustc nightly front-end and MIR construction (-Zmir-opt-level=0)",
                "tools/mirfacts fact extraction",
                "salsa_verif/mirlib analyses",
                "the necessity argument attached to each obligation",
            ],
        },
        "assumptions": [],
        "wall_s": round(time.time() - t0, 3),
        "violations": nviol,
    }
    return exit_code, lines, evidence
