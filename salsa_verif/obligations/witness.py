"""Type-level witnesses (thorough tier): rustc is the decision procedure."""
from ..framework import ob, Inconclusive

# witness -> (properties, statement)
WITNESSES = {
    "w1_ref_across_set": (["C20", "C23"], "a reference returned by a tracked function cannot be held across a setter (E0502)"),
    "w2_setter_needs_mut": (["C20"], "an input setter cannot be called with &db (E0308)"),
    "w3_handle_not_sync": (["C16", "C20", "C24"], "a database handle cannot be shared by reference with another thread (E0277)"),
    "w6_field_ref_outlives_db": (["C23"], "a field reference cannot outlive the database it was read from (E0597)"),
    "w7_synthetic_write_needs_mut": (["C02", "C20"], "synthetic_write needs &mut db (E0596)"),
    "w8_database_not_sync": (["C24", "C16"], "DatabaseImpl is Send but not Sync (E0277)"),
    "w9_tracked_handle_across_write": (["C20", "C23", "C07"], "a tracked-struct handle cannot be used after a write (E0502)"),
}


def _run(cx):
    from .. import runner
    try:
        return runner.witness_results()
    except Exception as e:  # noqa
        raise Inconclusive("witness doc-tests could not be run: %s" % e)


def make(name, props, what):
    @ob("TYPE." + name, props, "if this program type-checks, the API no longer enforces the exclusion at compile time: " + what, tier="t", kind="TYPE (compile_fail witness + compiling twin)")
    def w(cx, name=name, what=what):
        res = _run(cx)
        anchor = cx.fn(r"^database::Database::synthetic_write$")
        f = res.get("witnesses::%s_fail" % name)
        t = res.get("witnesses::%s_twin" % name)
        cx.require(f is not None and t is not None, "witness %s not found in doc-test output" % name)
        cx.require(t["result"] == "ok", "the compiling twin of %s does not compile - the witness is not meaningful on this tree" % name)
        cx.check(f["result"] == "ok" and f["compile_fail"], "rejected by rustc with the expected error code: " + what, None, {"fail": f, "twin": t}, key="witness " + name, body=anchor)

    w.__doc__ = "compile_fail witness %s: %s; its twin (same program without the offending line) compiles." % (name, what)
    return w


for _n, (_p, _w) in WITNESSES.items():
    make(_n, _p, _w)


@ob("TYPE.lru_mut", ["C05", "C20"], "a capacity change through &db would race with readers using the LRU list", kind="TYPE (signature of generated code)")
def lru_mut(cx):
    """The generated set_lru_capacity takes `&mut` database access (signature read from the expanded specimen crate); Zalsa::evict_lru / trigger_lru_eviction need &mut."""
    s = cx.specimen
    cx.require(s is not None, "specimen facts unavailable")
    c = [p for p in s.find(r"f_lru.*set_lru_capacity$")]
    cx.require(len(c) == 1, "generated set_lru_capacity")
    b = s.body(c[0])
    cx.check(b.info["inputs"][0].startswith("&mut "), "set_lru_capacity(db: &mut ..) requires exclusive database access", body=b, detail={"inputs": b.info["inputs"]}, key="lru-mut")
    t = cx.fn(r"^database::Database::trigger_lru_eviction$")
    cx.check(t.info["inputs"][0].startswith("&mut "), "trigger_lru_eviction requires &mut self", body=t, detail={"inputs": t.info["inputs"]}, key="evict-mut")


lru_mut._needs_specimen = True
