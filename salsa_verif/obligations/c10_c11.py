"""C10 specified results, C11 accumulated values."""
import re

from ..framework import ob, Inconclusive
from ..mirlib import Cmp, CallIs, VariantIn, BoolIs, OnlyIf, Site
from .c01_reuse import ret_cases, value_defs

EXPLANATIONS = {
    "C10": "Decided: specify proceeds only inside a tracked function and only for a tracked struct created by the active query "
    "(otherwise it diverges); a memo already verified in this revision with a value is kept if it was computed (not Assigned) and a "
    "second assignment by the same execution panics; the memo inserted has origin Assigned(creator), the creator's current stamp, "
    "verified_at = current revision, and the key is added to the creator's outputs; deep verification treats Assigned memos as "
    "Changed (shared C01.4e) unless their creator re-validates them (validate_specified_value asserts the creator and marks "
    "verified); stale specified memos are left unverified; Assigned memos are never evicted (shared C04.4); the claim uses "
    "Reentrancy::Deny. The ownership test of specify consults only the TOP frame of the query stack (IdentityMap::is_active: id and ingredient equal and the entry active); validate_specified_value is skipped only for an empty slot; when execute replaces an Assigned memo by a differing computed value it stamps changed_at = current revision (repaired finding F4). Not decided: path-independence of values for concrete request orders.",
    "C11": "Decided: accumulated_by records an untracked read and fetches the function before walking; the walk is LIFO over "
    "origin().inputs().rev() (depth-first in execution order), visits each key once, and prunes a subtree only if its reported "
    "InputAccumulatedValues is empty; the per-memo flag is computed as Any when an input has accumulated values else the input's own "
    "flag, is OR-ed during deep verification and stored, and reset for re-validated specified values; edges of never-change queries "
    "are kept when inputs accumulate (shared C01.3/C04.4); completion moves this execution's accumulated map into the new revisions; "
    "fixpoint cycles assert no accumulated inputs. complete_cycle_query completes only without accumulated inputs; the unwind clean-up of a pooled frame clears the accumulated values; the cold verdict is built after verify_memo refreshed the accumulated flag. Not decided: the value sequence for concrete programs.",
}

SP = r"^function::specify::<impl function::IngredientImpl<C>>::specify_and_record$"


@ob("C10.1", ["C10"], "specifying a value for a struct the current execution did not create lets any query overwrite any other's results", kind="ONLYIF")
def c10_1(cx):
    """specify_and_record inserts a memo only if there is an active query and is_tracked_struct_of_active_query(input_key); claims with Reentrancy::Deny and returns without inserting on Running/Cycle."""
    b = cx.fn(SP)
    ins = cx.one_call(b, r"^function::IngredientImpl::<C>::insert_memo$", "insert_memo in specify")
    cx.only_if(b, ins, VariantIn(r"active_query_with_cycle_heads\(", {"Some"}), "a value is specified only inside a tracked function")
    cx.only_if(b, ins, CallIs(r"ZalsaLocal::is_tracked_struct_of_active_query$", True), "only for a struct created by the active query")
    chk = cx.one_call(b, r"ZalsaLocal::is_tracked_struct_of_active_query$", "ownership check")
    cx.flow(b, cx.arg(chk, 1), [r"TrackedStructInDb>::database_key_index\(.*, \$3\)$"], [], "the ownership check is about the key being specified", chk)
    tc = cx.one_call(b, r"SyncTable::try_claim$", "try_claim in specify")
    cx.flow(b, cx.arg(tc, 4), [r"^Reentrancy::Deny"], [r"Reentrancy::Allow"], "specify claims with Reentrancy::Deny", tc)
    cx.only_if(b, ins, VariantIn(r"SyncTable::try_claim\(", {"Claimed"}), "the memo is written only under a successful claim")
    ia = cx.fn(r"^tracked_struct::IdentityMap::is_active$")
    cb = cx.closure_passed_to(ia, r"^std::option::Option::<T>::is_some_and$")
    cx.flow(cb, cb.origin_local(0), [r"^\$2\.active$"], [r"^const:1$"], "is_active reports the entry's active flag")


@ob("C10.2", ["C10"], "overwriting a value the function already computed in this revision makes the result depend on request order; a silent second specify keeps whichever came last", kind="ONLYIF")
def c10_2(cx):
    """If the old memo is verified in this revision and has a value: a non-Assigned memo is kept (return without insert); an Assigned one panics on a second assignment in the same execution (no cycle, not a fresh output)."""
    b = cx.fn(SP)
    ins = cx.one_call(b, r"^function::IngredientImpl::<C>::insert_memo$", "insert_memo in specify")
    memo = r"get_memo_from_table_for\(.*\)"
    fresh = Cmp(r"AtomicRevision::load\(.*" + memo + r".*\.header\.verified_at\)$", "==", r"^zalsa::Zalsa::current_revision\(", desc="old memo verified in this revision")
    has = VariantIn(memo + r".*\.value$", {"Some"}, desc="old memo has a value")
    asg = VariantIn(r"MemoHeader::origin\(.*" + memo + r".*\.header\)$", {"Assigned"}, desc="old memo was Assigned")
    eng = OnlyIf(cx.facts, b)
    # reaching the insert with a current, valued old memo requires it to be Assigned
    ef, eh, ea = eng.establishing_edges(fresh), eng.establishing_edges(has), eng.establishing_edges(asg)
    cx.require(ef and eh and ea, "specify: the three old-memo tests were not recognised")
    # paths to insert that took both `fresh` and `has` true edges but not the Assigned edge
    # = insert reachable from the target of a `has` edge without crossing an `asg` edge, where that `has` edge is itself only reachable after `fresh`
    bad = False
    for (x, s, lab) in eng.primary_edges(has):
        if eng.guarded_block(x, fresh):
            reach = b.reachable(s, "normal", cut_edges=ea)
            if ins.bb in reach:
                bad = True
    cx.check(not bad, "a computed (non-Assigned) result of this revision is never overwritten by specify", ins, key="keep-computed")
    pn = [s for s in b.calls(r"panicking::panic_fmt$|panicking::panic$") if eng.guarded_block(s.bb, asg)]
    cx.check(len(pn) >= 1, "a second assignment of the same key in one execution panics", ins, key="twice-panics")
    for s in pn:
        cx.only_if(b, s, CallIs(r"ZalsaLocal::add_output$", False, desc="!first_assignment_in_execution"), "`twice` panic only if the key was already an output of this execution")


@ob("C10.3", ["C10", "C01"], "a specified memo with the wrong origin, stamp or revision is verified (or invalidated) like a computed one", kind="FLOW+MUSTCALL")
def c10_3(cx):
    """The inserted memo is Memo::new(Some(value), current_revision, QueryRevisions{changed_at/durability of the creator's current stamp, origin assigned(active_query_key), verified_final = !cycle_heads.is_empty()}); add_output(key) follows on the success path."""
    b = cx.fn(SP)
    ins = cx.one_call(b, r"^function::IngredientImpl::<C>::insert_memo$", "insert_memo in specify")
    new = cx.one_call(b, r"^function::memo::Memo::<C>::new$", "Memo::new in specify")
    a = cx.args(new)
    cx.flow(b, a[0], [r"^Option::Some\{0: \$4\}$"], [r"Option::None"], "the memo holds the specified value", new)
    cx.flow(b, a[1], [r"^zalsa::Zalsa::current_revision\("], [r"^const:"], "verified_at = current revision", new)
    agg = cx.one(b.aggregates(r"^zalsa_local::QueryRevisions$"), "QueryRevisions aggregate in specify")
    o = b._origin_def(agg, "assign", agg.node(), 0, None, ())
    aq = r"active_query_with_cycle_heads\(.*\)@Some\.0"
    cx.flow(b, o, [r"changed_at: .*" + aq + r"\.1\.changed_at, durability: .*" + aq + r"\.1\.durability, origin_and_extra: zalsa_local::OriginAndExtra::assigned\(.*" + aq + r"\.0\)"], [r"origin_and_extra: zalsa_local::OriginAndExtra::derived"], "revisions = (creator's stamp, Assigned(creator))", agg)
    outs = cx.some_calls(b, r"ZalsaLocal::add_output$", 1, "add_output calls")
    after = [s for s in outs if b.reaches(ins, s)]
    cx.check(len(after) == 1, "the specified key is recorded as an output of the creator after the insert", ins, key="add-output")
    for s in after:
        cx.flow(b, cx.arg(s, 1), [r"^function::IngredientImpl::<C>::database_key_index\(\$1, \$3\)$"], [], "the output recorded is the specified key", s)
        reach = b.reachable(ins.node()["t"], "normal", cut_blocks={s.bb})
        cx.check(not any(r in reach for r in b.return_blocks()), "every successful specify records the output", s, key="add-output-always")


@ob("C10.4", ["C10", "C06"], "a specified value whose creator did not re-specify it that is still served (or one validated for the wrong creator) returns a value nobody assigned in this revision", kind="ONLYIF")
def c10_4(cx):
    """validate_specified_value asserts origin == Assigned(executor) before mark_as_verified; function::remove_stale_output leaves the memo untouched (it stays unverified); function::mark_validated_output -> validate_specified_value."""
    v = cx.fn(r"^function::specify::validate_specified_value$")
    mk = cx.one_call(v, r"MemoHeader::mark_as_verified$", "mark_as_verified")
    origin = r"MemoHeader::origin\("
    cx.only_if(v, mk, VariantIn(origin, {"Assigned"}), "only Assigned memos are re-validated by their creator")
    cx.only_if(v, mk, Cmp(r"@Assigned\.0$", "==", r"^\$2$", desc="assigned by the validating creator"), "only by the query that assigned them")
    r = cx.fn(r"^<function::IngredientImpl<C> as ingredient::Ingredient>::remove_stale_output$")
    cx.check(not r.calls(r"insert_memo|AtomicRevision::store|mark_as_verified|take_memos|evict"), "a stale specified memo is left in place, unverified", body=r, key="stale-left")
    m = cx.fn(r"^<function::IngredientImpl<C> as ingredient::Ingredient>::mark_validated_output$")
    cx.must_call(m, r"^function::specify::validate_specified_value$", "a green creator re-validates its specified values")


# ---------------------------------------------------------------------------------------------
# C11

AC = r"^function::accumulated::<impl function::IngredientImpl<C>>::"


@ob("C11.1", ["C11"], configs=("default", "persistence"), nec="reading accumulated values without an untracked read caches a stale list; walking before the function is up to date reads last revision's values", kind="ORDER")
def c11_1(cx):
    """accumulated_by: report_untracked_read(current_revision) and self.fetch(..) precede the walk (the first ingredient.accumulated call)."""
    b = cx.fn(AC + r"accumulated_by$")
    ur = cx.one_call(b, r"ZalsaLocal::report_untracked_read$", "report_untracked_read")
    ft = cx.one_call(b, r"fetch::<impl function::IngredientImpl<C>>::fetch$", "fetch")
    acc = cx.one_call(b, r"^ingredient::Ingredient::accumulated$", "ingredient.accumulated in the walk")
    cx.order(ur, acc, "the untracked read is reported before any value is read")
    cx.order(ft, acc, "the function is brought up to date before the walk")
    cx.flow(b, cx.arg(ur, 1), [r"^zalsa::Zalsa::current_revision\("], [r"^const:"], "the untracked read is stamped with the current revision", ur)
    cx.flow(b, cx.arg(ft, 4), [r"^\$3$"], [], "the function fetched is the one whose values are requested", ft)
    am = cx.fn(AC + r"accumulated_map$")
    cx.must_call(am, r"refresh_memo$", "accumulated_map reads an up-to-date memo")
    o = am.origin_local(0)
    cx.flow(am, o, [r"0: zalsa_local::QueryRevisions::accumulated\(.*refresh_memo\(.*\)\.header\.revisions\), 1: accumulator::accumulated_map::AtomicInputAccumulatedValues::load\(.*refresh_memo\(.*\)\.header\.revisions\.accumulated_inputs\)"], [], "accumulated_map returns (this memo's values, this memo's input flag)")


@ob("C11.2", ["C11"], configs=("default", "persistence"), nec="a FIFO or unreversed walk changes the order of the values; skipping `visited` duplicates them; pruning on a non-empty flag loses values", kind="FLOW")
def c11_2(cx):
    """The walk pops from the END of the stack (Vec::pop), pushes origin.inputs().rev(), expands a key only if visited.insert(k) was new, and skips a subtree only if the reported InputAccumulatedValues is_empty()."""
    b = cx.fn(AC + r"accumulated_by$")
    pop = cx.one_call(b, r"^std::vec::Vec::<T(, A)?>::pop$", "stack.pop")
    cx.check(not b.calls(r"Vec::<T(, A)?>::remove$|VecDeque|pop_front"), "the work list is a LIFO stack", pop, key="lifo")
    ext = cx.one_call(b, r"^std::iter::Extend::extend$", "stack.extend")
    cx.flow(b, cx.arg(ext, 1), [r"Iterator>::rev\(zalsa_local::QueryOriginRef::<'a>::inputs\("], [r"^zalsa_local::QueryOriginRef::<'a>::inputs\("], "children are pushed in reverse so that they pop in execution order", ext)
    acc = cx.one_call(b, r"^ingredient::Ingredient::accumulated$", "ingredient.accumulated")
    vi = cx.one_call(b, r"HashSet::<T, S(, A)?>::insert$", "visited.insert")
    cx.only_if(b, acc, CallIs(r"HashSet::<T, S(, A)?>::insert$", True, desc="visited.insert(k) was new"), "each key contributes once")
    cx.flow(b, cx.arg(vi, 1), [r"Vec::<T(, A)?>::pop\(.*\)@Some\.0$"], [], "the visited set is keyed by the popped key", vi)
    eng = OnlyIf(cx.facts, b)
    cut = eng.establishing_edges([CallIs(r"InputAccumulatedValues::is_empty$", True, desc="subtree reports no accumulated values"), VariantIn(r"Option::<T>::map\(", {"None"}, desc="no memo / not a function")])
    reach = b.reachable(acc.node()["t"], "normal", cut_edges=cut, cut_blocks={ext.bb})
    cx.check(pop.bb not in reach and not any(r in reach for r in b.return_blocks()), "after reading a key its inputs are left unexpanded only if the subtree reports no accumulated values (or there is no memo)", ext,
             {"reached_next_pop_without_expanding": pop.bb in reach}, key="prune-only-if-empty")
    ew = cx.one_call(b, r"AccumulatedMap::extend_with_accumulated$", "extend_with_accumulated")
    cx.order(acc, ew, "a key's own values are emitted when it is popped (pre-order)")
    cx.check(not b.reaches(ext, ew) or b.reaches(ew, ext), "own values are appended before the children are pushed", ew, key="own-before-children")


@ob("C11.3", ["C11"], configs=("default", "persistence"), nec="a memo whose inputs accumulate but whose flag says Empty is pruned from the walk: values are lost after verification/backdating", kind="FLOW")
def c11_3(cx):
    """add_read: accumulated_inputs |= (Any if the input memo has accumulated values else the input's flag); unchanged_for_memo likewise; deep_verify_edges ORs every Unchanged{accumulated} and stores the result into the memo; validate_specified_value resets the flag to Empty; prepare_completion moves the execution's accumulated map into the new revisions; cycles assert no accumulated inputs."""
    if "accumulator" not in cx.facts.features:
        cx.check(True, "accumulator feature disabled in this configuration", body=cx.fn(AC[:-2] if False else r"^active_query::ActiveQuery::add_read$"))
        return
    b = cx.fn(r"^active_query::ActiveQuery::add_read$")
    bo = cx.one_call(b, r"BitOrAssign::bitor_assign$", "accumulated_inputs |= ..")
    cx.must_call(b, r"BitOrAssign::bitor_assign$", "every read folds the input's accumulated flag")
    a = cx.args(bo)
    cx.flow(b, a[0], [r"^\$1\.accumulated_inputs$"], [], "folds into the active query's flag", bo)
    cx.flow(b, a[1], [r"^phi\{InputAccumulatedValues::Any\{\} \| accumulator::accumulated_map::AtomicInputAccumulatedValues::load\(\$7\)\}$"], [r"^InputAccumulatedValues::Empty"], "Any if the input has accumulated values, else the input's own flag", bo)
    for s in b.aggregates(r"InputAccumulatedValues$", "Any"):
        cx.only_if(b, s, BoolIs(r"^\$6$", True, desc="has_accumulated"), "Any exactly when the input memo itself accumulated")
    f = cx.fn(r"^function::fetch::<impl function::IngredientImpl<C>>::fetch$")
    c = cx.one_call(f, r"^zalsa_local::ZalsaLocal::report_tracked_read$", "report_tracked_read in fetch")
    a = cx.args(c)
    cx.flow(f, a[5], [r"^std::option::Option::<T>::is_some\(zalsa_local::QueryRevisions::accumulated\(.*refresh_memo\(.*\)\.header\.revisions\)\)$"], [r"^const:"], "has_accumulated = the returned memo has accumulated values", c)
    cx.flow(f, a[6], [r"refresh_memo\(.*\)\.header\.revisions\.accumulated_inputs$"], [], "the flag passed is the returned memo's accumulated_inputs", c)
    de = cx.fn(r"^function::maybe_changed_after::deep_verify_edges$")
    st = cx.one_call(de, r"AtomicInputAccumulatedValues::store$", "store of the recomputed flag")
    cx.flow(de, cx.arg(st, 0), [r"^\$3\.accumulated_inputs$"], [], "stored into the verified memo", st)
    cx.some_calls(de, r"BitOrAssign::bitor_assign$", 1, "OR of each input's flag")
    fin = cx.one_call(de, r"VerifyResult::unchanged_with_accumulated$", "final result")
    cx.check(cx.arg(st, 1) == cx.arg(fin, 0), "the flag stored is the one reported to the caller", st, {"stored": cx.arg(st, 1)[:120], "reported": cx.arg(fin, 0)[:120]}, key="stored-is-reported")
    um = cx.fn(r"^function::maybe_changed_after::VerifyResult::unchanged_for_memo$")
    o = um.origin_local(0)
    cx.flow(um, o, [r"unchanged_with_accumulated\(phi\{InputAccumulatedValues::Any\{\} \| accumulator::accumulated_map::AtomicInputAccumulatedValues::load\(\$1\.accumulated_inputs\)\}\)$"], [r"InputAccumulatedValues::Empty"], "a verified memo reports Any if it accumulated itself, else its inputs' flag")
    v = cx.fn(r"^function::specify::validate_specified_value$")
    st = cx.one_call(v, r"AtomicInputAccumulatedValues::store$", "flag reset for specified values")
    cx.flow(v, cx.arg(st, 1), [r"^InputAccumulatedValues::Empty"], [r"Any"], "a re-validated specified value has no accumulated inputs", st)
    pc = cx.fn(r"^active_query::ActiveQuery::prepare_completion$")
    ex = cx.one_call(pc, r"^zalsa_local::QueryRevisionsExtra::new$", "QueryRevisionsExtra::new")
    cx.flow(pc, cx.arg(ex, 0), [r"^std::mem::take(::<[^()]*>)?\(\$1\.accumulated\)$"], [], "this execution's accumulated map moves into the new revisions", ex)
    cq = cx.fn(r"^function::execute::complete_cycle_query$")
    cx.some_calls(cq, r"InputAccumulatedValues::is_empty$", 1, "cycle assertion on accumulated inputs")


@ob("C10.5", ["C10"], "a query that may specify on a struct created by one of its callers (any frame below the top of the stack) makes the specified value depend on which caller happened to be running: not path-independent", kind="FLOW (ownership test)")
def c10_5(cx):
    """is_tracked_struct_of_active_query(entity) = the TOP frame of the query stack exists and its tracked_struct_ids().is_active(entity); IdentityMap::is_active finds the entry with the entity's id and ingredient and returns its `active` flag (an inactive seed from the previous execution does not count)."""
    b = cx.fn(r"^zalsa_local::ZalsaLocal::is_tracked_struct_of_active_query$")
    cb = cx.closure_passed_to(b, r"with_query_stack_unchecked(_mut)?$")
    o = cb.origin_local(0)
    cx.flow(cb, o, [r"^std::option::Option::<T>::is_some_and\(core::slice::<impl \[T\]>::(last_mut|last)\(\$2\), closure:.*\[\$1\.0\]\)$"], [r"Iterator>::any\(", r"::first(_mut)?\(", r"Iterator>::rev\("], "only the top frame of the query stack is consulted")
    inner = cx.fn(r"^zalsa_local::ZalsaLocal::is_tracked_struct_of_active_query::\{closure#0\}::\{closure#0\}$")
    cx.flow(inner, inner.origin_local(0), [r"^tracked_struct::IdentityMap::is_active\(active_query::ActiveQuery::tracked_struct_ids\(\$2\), \$1\.0\)$"], [], "the frame's own identity map is asked about the entity")
    ia = cx.fn(r"^tracked_struct::IdentityMap::is_active$")
    cx.flow(ia, ia.origin_local(0), [r"^std::option::Option::<T>::is_some_and\(<Iter as std::iter::Iterator>::find\(hashbrown::HashTable::<T, A>::iter\(\$1\.table\), closure:.*is_active::\{closure#0\}\[\$2\]\), closure:.*is_active::\{closure#1\}\[\]\)$"], [r"Option::<T>::is_some\("], "is_active = the matching entry exists AND is active")
    c1 = cx.fn(r"^tracked_struct::IdentityMap::is_active::\{closure#1\}$")
    cx.flow(c1, c1.origin_local(0), [r"^\$2\.active$"], [r"^const:1$"], "an entry seeded from the previous execution but not recreated does not count")
    c0 = cx.fn(r"^tracked_struct::IdentityMap::is_active::\{closure#0\}$")
    eqs = cx.some_calls(c0, r"^std::cmp::PartialEq::eq$", 2, "id / ingredient comparisons")
    pairs = sorted((cx.arg(s, 0), cx.arg(s, 1)) for s in eqs)
    cx.check(pairs == sorted([("$2.id", "key::DatabaseKeyIndex::key_index($1.0)"), ("tracked_struct::Identity::ingredient_index($2.identity)", "key::DatabaseKeyIndex::ingredient_index($1.0)")]), "an entry matches only on the entity's id and ingredient", eqs[0], {"pairs": pairs}, key="match-pairs")
    for site, kind, node in value_defs(c0, 0):
        oo = c0._origin_def(site, kind, node, 0, None, ())
        if oo == "const:0":
            continue
        cx.only_if(c0, site, Cmp(r"^\$2\.id$", "==", r"^key::DatabaseKeyIndex::key_index\(\$1\.0\)$", desc="entry.id == key.key_index()"), "a match requires the id to be equal")
        cx.flow(c0, oo, [r"^<IngredientIndex as std::cmp::PartialEq>::eq\(tracked_struct::Identity::ingredient_index\(\$2\.identity\), key::DatabaseKeyIndex::ingredient_index\(\$1\.0\)\)$"], [r"^const:1$"], "and the ingredient to be equal", site)


@ob("C10.6", ["C10", "C06"], "a green creator re-specifies nothing: if its specified values are not re-validated with it, the next read of the specified function falls through to the function body and returns the computed instead of the specified value", kind="MUSTCALL (skipped only if)")
def c10_6(cx):
    """validate_specified_value returns without mark_as_verified only when the memo slot is empty; on every other normal path it (asserts origin == Assigned(executor) and) calls header.mark_as_verified(zalsa, database_key_index) for the memo read from the slot."""
    v = cx.fn(r"^function::specify::validate_specified_value$")
    mk = cx.one_call(v, r"MemoHeader::mark_as_verified$", "mark_as_verified in validate_specified_value")
    a = cx.args(mk)
    cx.flow(v, a[0], [r"^function::memo::ErasedMemo::<'memo>::header\(table::memo::MemoSlot::<'a>::get_erased\(\$4\)@Some\.0\)$"], [], "the memo validated is the one in the slot", mk)
    cx.check(a[1] == "$1" and a[2] == "$3", "validated for the specified key", mk, {"args": a[1:]}, key="validate-key")
    cx.skipped_only_if(v, mk, VariantIn(r"MemoSlot::<'a>::get_erased\(\$4\)$", {"None"}, desc="the slot holds no memo"), "validation is skipped only if there is no memo to validate")


@ob("C10.7", ["C10", "C01"], "a specified value is not a function of the specified function's own inputs; when the creator stops specifying and the body's value replaces it, a memo stamped only from those inputs looks unchanged to every query that read the specified value (finding F4)", kind="FLOW+ONLYIF (skipped only if)")
def c10_7(cx):
    """execute: when the old memo's origin is Assigned and the new value is not values_equal to the old one, completed_query.revisions.changed_at := zalsa.current_revision() before the memo is inserted; the stamp is skipped only if the old memo is not Assigned or the values are equal; the closure compares the OLD value with the NEW value through C::values_equal."""
    e = cx.fn(r"^function::execute::<impl function::IngredientImpl<C>>::execute$")
    st = [x for x in cx.stores(e) if x[1].endswith(".revisions.changed_at")]
    ins = cx.one_call(e, r"^function::IngredientImpl::<C>::insert_memo$", "insert_memo in execute")
    cx.check(len(st) >= 1, "execute stamps a computed value that replaces a specified one as changed now", ins, key="stamp-present")
    if not st:
        return
    origin = r"MemoHeader::origin\(\$4@Some\.0\.header\)$"
    assigned = VariantIn(origin, {"Assigned"}, desc="old memo was specified (origin Assigned)")
    not_assigned = VariantIn(origin, {"Derived", "DerivedUntracked"}, desc="old memo was computed")
    no_old = VariantIn(r"^\$4$", {"None"}, desc="no old memo")
    eq = CallIs(r"^std::option::Option::<T>::is_some_and$", True, [r"^function::memo::Memo::<C>::value\(\$4@Some\.0\)$"], desc="old value values_equal new value")
    for s, po, vo in st:
        cx.flow(e, vo, [r"^zalsa::Zalsa::current_revision\(function::sync::ClaimGuard::<'me>::zalsa\(\$3\)\)$"], [r"^const:", r"Revision::start"], "changed_at := current revision", s)
        cx.check(e.reaches(s, ins) and not e.reaches(ins, s), "the stamp is applied before the memo is stored", s, key="stamp-before-insert")
        with cx.only("C03"):
            cx.only_if(e, s, assigned, "the stamp is forced only when a specified value is being replaced (precision)")
        cx.skipped_only_if(e, s, [not_assigned, no_old, eq], "the stamp is skipped only if there was no specified old value or the values are equal", exits=[ins.bb])
        bk = cx.one_call(e, r"backdate_if_appropriate$", "backdate in execute")
        cx.check(e.reaches(bk, s) and not e.reaches(s, bk), "the stamp is applied after backdating (which it must override)", s, key="stamp-after-backdate")
    cb = [c for _, c in cx.facts.closures_of(e) if c.calls(r"Configuration::values_equal$")]
    cx.sites(cb, 1, "values_equal closure in execute")
    for c in cb:
        ve = cx.one_call(c, r"Configuration::values_equal$", "values_equal")
        a = cx.args(ve)
        cx.check(a[0] == "$2" and re.search(r"^\$1\.0", a[1]) is not None, "the comparison is between the old memo's value and the new value", ve, {"args": a}, key="cmp-args")


@ob("C11.6", ["C11", "C12"], "a fixpoint query stores flattened edges, not its call tree; if it silently completed with accumulated inputs the accumulated values of its callees would be unreachable from its memo (lost on reuse)", kind="ONLYIF (assert dominates the return)", configs=("default", "persistence"))
def c11_6(cx):
    """complete_cycle_query returns only if completed_query.revisions.accumulated_inputs.load().is_empty() (otherwise it panics): fixpoint iteration refuses accumulated inputs instead of dropping them."""
    c = cx.fn(r"^function::execute::complete_cycle_query$")
    emp = CallIs(r"InputAccumulatedValues::is_empty$", True, [r"AtomicInputAccumulatedValues::load\(.*\.revisions\.accumulated_inputs\)$"], desc="accumulated_inputs.load().is_empty()")
    n = 0
    for r in c.return_blocks():
        n += 1
        cx.only_if(c, Site(c, r, len(c.blocks[r]["stmts"])), emp, "complete_cycle_query completes only without accumulated inputs")
    cx.require(n >= 1, "return of complete_cycle_query")


@ob("C10.8", ["C10", "C02"], "every call of specify installs a memo stamped with the CURRENT specification's changed_at/durability; a shortcut that keeps an older memo alive (e.g. because the value is equal) keeps its older, possibly more durable stamp: a later low-durability write that switches the specification off no longer invalidates it", kind="MUSTCALL (skipped only if)")
def c10_8(cx):
    """specify_and_record returns without inserting a new memo only if the claim was not obtained (the function is running / cycle) or a value produced by ANOTHER source in this revision wins (old memo verified in this revision, has a value, origin not Assigned); in every other case insert_memo(.., Memo::new(Some(value), revision, ..)) is reached."""
    b = cx.fn(SP)
    ins = cx.one_call(b, r"^function::IngredientImpl::<C>::insert_memo$", "insert_memo in specify_and_record")
    claim = r"SyncTable::try_claim\("
    memo = r"get_memo_from_table_for\("
    lits = [VariantIn(claim, {"Running", "Cycle"}, desc="the function is being executed (claim not obtained)"),
            VariantIn(r"MemoHeader::origin\(.*\)$", {"Derived", "DerivedUntracked"}, desc="a computed value of this revision wins")]
    cx.skipped_only_if(b, ins, lits, "specify installs a fresh memo unless the function is running or a computed value of this revision wins")
