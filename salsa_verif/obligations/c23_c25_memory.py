"""C23 memory discipline, C24 distinct identities, C25 stored dependency edges."""
import re

from ..framework import ob, Inconclusive
from ..mirlib import Cmp, CallIs, VariantIn, BoolIs, OnlyIf, Site
from .c01_reuse import ret_cases, value_defs

EXPLANATIONS = {
    "C23": "Decided (specific disciplines only): a memo replaced in the table is parked in deleted_entries, which is cleared only "
    "through &mut self at the revision boundary; every memo handed out by fetch has a value before unwrap_unchecked (shared C01.4a/b); "
    "a page slot is written before the page length is published (Release) and readers load the length with Acquire; a full page "
    "refuses allocation; every mutable re-attachment of a slot's memo table is preceded by its exclusivity evidence (tracked write-lock "
    "swap, stale-slot selection under the shard lock, &mut Table); allocation/reclaim pairs (page data, memo boxes) agree; the "
    "census of unsafe lifetime extensions is reported in the evidence. extend_memo_lifetime is called only on memos owned by this ingredient's memo table (loaded from it, or just inserted); unwrap_unchecked of a memo value only on refresh_memo's result, which is value-present on every return path. NOT decided: freedom from undefined behaviour in general "
    "(that needs Miri/sanitizers - a different technique family).",
    "C24": "Decided: a page index enters a handle's most_recent_pages only from fetch_or_push_page / push_page in the same call; "
    "take_non_full_page removes what it returns under the PAGES lock; unfilled pages are published only by draining the publisher's "
    "own map through &mut ZalsaLocal; an id is make_id(page, index) for the length read in the same allocate call, which is published "
    "only after the slot write; make_id/split_id are inverse for the page/slot bit split; Singleton uses a CAS from the empty state; "
    "tracked free-list ids get a new generation (shared C07.1); ZalsaLocal is !Sync (type witness, thorough). The page cache and the shared unfilled-page list are keyed by the ingredient asked on every path; a slot is allocated on the view of the same page index that goes into the id. Not decided: "
    "distinctness under concrete interleavings beyond these disciplines.",
    "C25": "Decided, given the arithmetic lemma in DESIGN.md: GENERATION_MASK + 1 == 1 << INGREDIENT_SHIFT, INGREDIENT_MASK == "
    "u32::MAX >> INGREDIENT_SHIFT <= IngredientIndex::MAX_INDEX (an output-tagged index never packs), tag masks pairwise disjoint; "
    "PackedQueryEdge::new rejects out-of-range ingredient/generation and otherwise stores index verbatim and generation | ingredient "
    "<< SHIFT; edge() decodes with the same constants; with_tag/tag/key use bit 31 consistently; input/output copy index and "
    "generation; QueryEdge equality covers all fields. OriginAndExtra: constructor / origin() / Drop use the same SliceWithHeader<H, E> instantiation per (extra?, packed|wide) tag combination; readers (iter, next, next_back, inputs, iter_outputs, output_edges) keep representation, direction and classify by the tag only; under persistence edges are written as raw (tagged) keys and read back field by field, origins keep their kind. Not decided: order preservation through IndexSet (trusted), persistence "
    "round trip (C26, thorough).",
}


@ob("C23.1", ["C23", "C05", "C16"], "freeing a replaced memo while a reference handed out earlier in the revision may still be alive is a use-after-free", kind="FLOW+WRITERS")
def c23_1(cx):
    """insert_memo: the previous pointer returned by insert_memo_into_table_for flows into deleted_entries.push; DeletedEntries::clear takes &mut self and its only caller is reset_for_new_revision(&mut self); Box::from_raw of memo allocations happens only in SharedBox::drop / table code holding &mut."""
    b = cx.fn(r"^function::IngredientImpl::<C>::insert_memo$")
    ins = cx.one_call(b, r"insert_memo_into_table_for$", "table insert")
    ps = cx.one_call(b, r"DeletedEntries::<C>::push$", "deleted_entries.push")
    cx.flow(b, cx.arg(ps, 1), [r"insert_memo_into_table_for\(.*\)@Some\.0$"], [], "the replaced memo is parked in deleted_entries", ps)
    cx.skipped_only_if(b, ps, VariantIn(r"insert_memo_into_table_for\(", {"None"}), "a replaced memo is never dropped on the spot")
    cx.flow(b, cx.arg(ps, 0), [r"^\$1\.deleted_entries$"], [], "into this ingredient's queue", ps)
    lk = cx.one_call(b, r"^std::boxed::Box::<T>::leak$|Box::<T, A>::leak$", "Box::leak of the new memo")
    cx.order(lk, ins, "the memo is boxed (stable address) before it is published in the table")
    cl = cx.fn(r"^function::delete::DeletedEntries::<C>::clear$")
    cx.check(cl.info["inputs"][0].startswith("&mut "), "DeletedEntries::clear requires &mut self", body=cl, detail={"inputs": cl.info["inputs"]}, key="clear-mut")
    for s in cx.facts.call_sites_of(r"^function::delete::DeletedEntries::<C>::clear$"):
        ok = s.body.info.get("inputs", [""])[0].startswith("&mut function::IngredientImpl")
        cx.check(ok, "deleted entries are freed only with exclusive access to the ingredient", s, key="clear-caller " + s.body.path)
    n = 0
    for s in cx.facts.call_sites_of(r"^std::boxed::Box::<T>::from_raw$|Box::<T, A>::from_raw"):
        if not re.search(r"function(/|\.rs$)|table/memo", s.body.file):
            continue
        n += 1
        ok = re.search(r"SharedBox<T> as std::ops::Drop>::drop$|MemoTable|MemoEntry|LazyMemoEntries|memo::", s.body.path) is not None
        cx.check(ok, "memo boxes are reclaimed only by SharedBox::drop / memo-table code", s, key="from_raw " + s.body.path)
    cx.require(n >= 1, "Box::from_raw census for memo allocations")
    sb = cx.facts.drop_impl(r"^function::delete::SharedBox<T>$")
    cx.require(sb is not None, "Drop for SharedBox")
    cx.must_call(sb, r"Box::<T>::from_raw$|Box::<T, A>::from_raw$", "SharedBox::drop frees its allocation")


@ob("C23.4", ["C23", "C24", "C16"], "publishing the page length before the slot is written lets a reader (or the id's first user) see an uninitialised slot; allocating into a full page writes out of bounds", kind="ORDER+ATOMIC")
def c23_4(cx):
    """PageView::allocate: index = allocated.load(Acquire); index >= PAGE_LEN => Err; the slot write (MaybeUninit::write(value(id))) precedes allocated.store(index + 1, Release); id = make_id(page, SlotIndex::new(index)); the entry written is data[index]."""
    b = cx.fn(r"^table::PageView::<'db, T>::allocate$")
    ld = cx.one_call(b, r"atomic::Atomic(Usize|::<usize>)::load$|AtomicUsize::load$", "allocated.load")
    st = cx.one_call(b, r"atomic::Atomic(Usize|::<usize>)::store$|AtomicUsize::store$", "allocated.store")
    wr = cx.one_call(b, r"MaybeUninit::<T>::write$", "slot write")
    cx.order(wr, st, "the slot is initialised before the new length is published")
    a = cx.args(st)
    idx = r"(AtomicUsize|Atomic::<usize>)::load\(\$1\.0\.allocated, Ordering::\w+\{\}\)"
    cx.flow(b, a[1], [r"^\(.*" + idx + r" Add(WithOverflow)? const:1\)(\.0)?$"], [r"Add(WithOverflow)? const:[2-9]", r"^const:"], "the published length is index + 1", st)
    cx.flow(b, a[2], [r"^Ordering::Release"], [r"Ordering::Relaxed"], "the length is published with Release", st)
    cx.flow(b, cx.arg(ld, 1), [r"^Ordering::Acquire"], [r"Ordering::Relaxed"], "the length is read with Acquire", ld)
    full = Cmp(idx + "$", "<", r"PAGE_LEN", desc="index < PAGE_LEN")
    cx.only_if(b, wr, full, "a slot is written only if the page is not full")
    for s in cx.ret_sites(b, "Err"):
        cx.only_if(b, s, Cmp(idx + "$", ">=", r"PAGE_LEN"), "Err only if the page is full")
    mk = cx.one_call(b, r"^table::make_id$", "make_id")
    cx.flow(b, cx.arg(mk, 0), [r"^\$2$"], [], "the id names this page", mk)
    cx.flow(b, cx.arg(mk, 1), [r"^table::SlotIndex::new\(.*" + idx + r"\)$"], [], "and the slot index just read", mk)
    cx.flow(b, cx.arg(wr, 0), [r"ptr::.*add\(.*" + idx + r"\)|add\(.*, " + idx + r"\)"], [], "the entry written is data[index]", wr)
    for name in (r"PageView::<'db, T>::data$", r"PageView::<'db, T>::page_data$", r"Page::get$"):
        r = cx.fn(r"^table::" + name)
        l = cx.one_call(r, r"atomic::Atomic(Usize|::<usize>)::load$|AtomicUsize::load$", "length load in " + name)
        cx.flow(r, cx.arg(l, 1), [r"^Ordering::Acquire"], [r"Ordering::Relaxed"], "%s reads the published length with Acquire" % name.split("::")[-1].rstrip("$"), l)
    g = cx.fn(r"^table::Page::get$")
    byte = cx.one_call(g, r"byte_add$", "pointer arithmetic in Page::get")
    cx.only_if(g, byte, Cmp(r"^\$2\.0$", "<", r"load\(\$1\.allocated"), "Page::get computes a slot pointer only for an initialised index")


@ob("C24.1", ["C24", "C23", "C16"], "two handles that believe they own the same unfilled page write the same slot index: two structs with one identity", kind="WRITERS+FLOW")
def c24_1(cx):
    """most_recent_pages is filled only from fetch_or_push_page / push_page; take_non_full_page pops under the PAGES lock; record_unfilled_pages drains the handle's own map (via &mut self) into record_unfilled_page; it is reached from Storage::drop and into_zalsa_handle; make_id / split_id are inverse."""
    zl = r"^zalsa_local::ZalsaLocal::"
    ac = cx.fn(zl + r"allocate_cold$")
    ins = cx.one_call(ac, r"HashMap::<K, V, S(, A)?>::insert$", "most_recent_pages.insert")
    cx.flow(ac, cx.arg(ins, 2), [r"^table::Table::push_page(::<[^()]*>)?\("], [r"^\$", r"^const:"], "a page recorded as 'mine' was just pushed by this call", ins)
    cb = cx.closure_passed_to(ac, r"Entry::<'a, K, V, S(, A)?>::or_insert_with$|or_insert_with$")
    cx.flow(cb, cb.origin_local(0), [r"^table::Table::fetch_or_push_page(::<[^()]*>)?\("], [r"^const:"], "the first page of an ingredient comes from fetch_or_push_page")
    for body in cx.facts.all_bodies():
        if body is ac or body is cb:
            continue
        for s in body.calls(r"HashMap::<K, V, S(, A)?>::insert$|Entry.*or_insert"):
            if "most_recent_pages" in cx.arg(s, 0):
                cx.check(False, "most_recent_pages is written only by allocate_cold", s, key="mrp-writer " + body.path)
    t = cx.fn(r"^table::Table::take_non_full_page$")
    lk = cx.one_call(t, r"Mutex::<R, T>::lock$", "PAGES lock")
    cx.flow(t, cx.arg(lk, 0), [r"^\$1\.non_full_pages$"], [], "takes the PAGES lock", lk)
    cx.flow(t, t.origin_local(0), [r"and_then\(.*fn:std::vec::Vec::<T(, A)?>::pop\)$|Vec::<T(, A)?>::pop"], [r"last\(|first\(|\.get\("], "the page handed out is REMOVED from the shared list (Vec::pop)")
    ru = cx.fn(zl + r"record_unfilled_pages$")
    cx.check(ru.info["inputs"][0] == "&mut zalsa_local::ZalsaLocal", "record_unfilled_pages needs exclusive access to the handle-local state", body=ru, detail={"inputs": ru.info["inputs"]}, key="rup-mut")
    cx.some_calls(ru, r"HashMap::<K, V, S(, A)?>::drain$", 1, "drain of most_recent_pages")
    for s in cx.facts.call_sites_of(r"^table::Table::record_unfilled_page$"):
        ok = re.search(r"record_unfilled_pages", s.body.path) is not None
        cx.check(ok, "pages are published as unfilled only while being drained from their owner", s, key="publish-site " + s.body.path)
    for s in cx.facts.call_sites_of(zl + r"record_unfilled_pages$"):
        ok = re.search(r"storage::Storage<Db> as std::ops::Drop>::drop$|into_zalsa_handle$", s.body.path) is not None
        cx.check(ok, "a handle gives its pages back only when it is dropped / converted", s, key="give-back " + s.body.path)
    fp = cx.fn(r"^table::Table::fetch_or_push_page$")
    ret_cases(cx, fp, [(r"take_non_full_page\(\$1, \$2\)@Some\.0$", [], "a page taken from the shared list"), (r"^table::Table::push_page", [], "a freshly pushed page")], [], "fetch_or_push_page")
    # make_id / split_id
    f = cx.facts
    bits = f.const("table::PAGE_LEN_BITS")
    cx.check(f.const("table::PAGE_LEN") == 1 << bits and f.const("table::PAGE_LEN_MASK") == (1 << bits) - 1, "PAGE_LEN == 1 << PAGE_LEN_BITS and PAGE_LEN_MASK == PAGE_LEN - 1", body=fp, detail={"bits": bits}, key="page-consts")
    mk = cx.fn(r"^table::make_id$")
    o = cx.arg(cx.one_call(mk, r"^id::Id::from_index$", "from_index"), 0)
    cx.flow(mk, o, [r"^\(\(\$1\.0 Shl const:table::PAGE_LEN_BITS(=\d+)?\) BitOr \$2\.0\)$"], [r"BitXor|Add"], "make_id = (page << PAGE_LEN_BITS) | slot")
    sp = cx.fn(r"^table::split_id$")
    o = sp.origin_local(0)
    cx.flow(sp, o, [r"0: table::PageIndex::new\(\(id::Id::index\(\$1\) Shr const:table::PAGE_LEN_BITS(=\d+)?\)\), 1: table::SlotIndex::new\(\(id::Id::index\(\$1\) BitAnd const:table::PAGE_LEN_MASK(=\d+)?\)\)"], [], "split_id = (index >> PAGE_LEN_BITS, index & PAGE_LEN_MASK)")


@ob("C24.4", ["C24"], "a singleton that can be initialised twice, concurrently, hands out two identities for 'the' instance", kind="FLOW")
def c24_4(cx):
    """Singleton::with_scope: compare_exchange from the empty state; a second creation panics."""
    w = cx.fn(r"^<input::singleton::Singleton as input::singleton::SingletonChoice>::with_scope$")
    ce = cx.some_calls(w, r"compare_exchange$", 1, "CAS in Singleton::with_scope")
    for c in ce:
        cx.flow(w, cx.arg(c, 1), [r"^const:0$"], [], "the CAS expects the empty state", c)
    cx.check(not w.calls(r"atomic::Atomic.*::store$"), "the singleton slot is never blindly stored", ce[0], key="no-store")


# ---------------------------------------------------------------------------------------------
# C25

PQ = "zalsa_local::PackedQueryEdge::"


@ob("C25.1", ["C25", "C07", "C01"], "masks and shifts that disagree between the writer and the reader decode another generation or ingredient than was stored", kind="CONST")
def c25_1(cx):
    """GENERATION_MASK + 1 == 1 << INGREDIENT_SHIFT; INGREDIENT_MASK == u32::MAX >> INGREDIENT_SHIFT; INGREDIENT_MASK <= IngredientIndex::MAX_INDEX == (1<<31)-1; KIND_MASK, LAYOUT_MASK, WITH_EXTRA_MASK pairwise disjoint."""
    f = cx.facts
    b = cx.fn(r"^zalsa_local::PackedQueryEdge::new$")
    g, s, i = f.const(PQ + "GENERATION_MASK"), f.const(PQ + "INGREDIENT_SHIFT"), f.const(PQ + "INGREDIENT_MASK")
    mx = f.const("zalsa::IngredientIndex::MAX_INDEX")
    cx.require(None not in (g, s, i, mx), "packing constants")
    d = {"GENERATION_MASK": g, "INGREDIENT_SHIFT": s, "INGREDIENT_MASK": i, "MAX_INDEX": mx}
    cx.check(g + 1 == 1 << s, "GENERATION_MASK + 1 == 1 << INGREDIENT_SHIFT", body=b, detail=d, key="gen-mask")
    cx.check(i == 0xFFFFFFFF >> s, "INGREDIENT_MASK == u32::MAX >> INGREDIENT_SHIFT", body=b, detail=d, key="ing-mask")
    cx.check(mx == (1 << 31) - 1, "IngredientIndex::MAX_INDEX == (1 << 31) - 1 (bit 31 is the output tag)", body=b, detail=d, key="max-index")
    cx.check(i <= mx, "an output-tagged ingredient index never fits the packed form", body=b, detail=d, key="outputs-never-pack")
    k, l, w = f.const("zalsa_local::QueryOriginTag::KIND_MASK"), f.const("zalsa_local::QueryOriginTag::LAYOUT_MASK"), f.const("zalsa_local::OriginAndExtraTag::WITH_EXTRA_MASK")
    cx.require(None not in (k, l, w), "tag masks")
    cx.check(k & l == 0 and k & w == 0 and l & w == 0, "KIND_MASK, LAYOUT_MASK and WITH_EXTRA_MASK are pairwise disjoint", body=b, detail={"KIND": k, "LAYOUT": l, "WITH_EXTRA": w}, key="tag-masks")
    adt = f.adts.get("zalsa_local::QueryOriginKind")
    if adt:
        ds = [int(v["discr"]) for v in adt["variants"]]
        cx.check(all(x & ~k == 0 for x in ds), "every QueryOriginKind discriminant fits KIND_MASK", body=b, detail={"discriminants": ds}, key="kind-fits")
    cx.check(f.const("id::Id::MAX_U32") is not None, "Id::MAX_U32 evaluated", body=b, key="id-max")


@ob("C25.2", ["C25", "C07", "C01"], "an encoder that accepts a value it cannot represent (or a decoder using another mask) silently changes the stored edge", kind="FLOW")
def c25_2(cx):
    """PackedQueryEdge::new returns None if ingredient > INGREDIENT_MASK or generation > GENERATION_MASK, else stores index verbatim and generation | (ingredient << INGREDIENT_SHIFT); edge() decodes index, metadata & GENERATION_MASK, metadata >> INGREDIENT_SHIFT; with_tag clears then sets bit 31; tag() tests it; key() clears it."""
    n = cx.fn(r"^zalsa_local::PackedQueryEdge::new$")
    ing = r"^zalsa::IngredientIndex::as_u32\(\$1\.ingredient\)$"
    for s in cx.ret_sites(n, "Some"):
        cx.only_if(n, s, Cmp(ing, "<=", r"INGREDIENT_MASK", desc="ingredient <= INGREDIENT_MASK"), "packed only if the ingredient fits")
        cx.only_if(n, s, Cmp(r"^\$1\.generation$", "<=", r"GENERATION_MASK", desc="generation <= GENERATION_MASK"), "packed only if the generation fits")
        o = n._origin_def(s, "assign", s.node(), 0, None, ())
        cx.flow(n, o, [r"^Option::Some\{0: PackedQueryEdge\{index: \$1\.index, metadata: \(\$1\.generation BitOr \(zalsa::IngredientIndex::as_u32\(\$1\.ingredient\) Shl const:zalsa_local::PackedQueryEdge::INGREDIENT_SHIFT(=\d+)?\)\)\}\}$"],
                [r"BitXor|BitAnd|Add"], "packed = (index, generation | ingredient << INGREDIENT_SHIFT)", s)
    e = cx.fn(r"^zalsa_local::PackedQueryEdge::edge$")
    o = e.origin_local(0)
    cx.flow(e, o, [r"^QueryEdge\{index: \$1\.index, generation: \(\$1\.metadata BitAnd const:zalsa_local::PackedQueryEdge::GENERATION_MASK(=\d+)?\), ingredient: zalsa::IngredientIndex::new_unchecked\(\(\$1\.metadata Shr const:zalsa_local::PackedQueryEdge::INGREDIENT_SHIFT(=\d+)?\)\)\}$"],
            [r"INGREDIENT_MASK\)", r"Shl"], "unpacked = (index, metadata & GENERATION_MASK, metadata >> INGREDIENT_SHIFT)")
    wt = cx.fn(r"^zalsa::IngredientIndex::with_tag$")
    st = cx.stores(wt, r"^\$1\.0$")
    cx.sites(st, 2, "with_tag stores")
    cl = [x for x in st if re.search(r"^\(\$1\.0 BitAnd const:zalsa::IngredientIndex::MAX_INDEX(=\d+)?\)$", x[2])]
    se = [x for x in st if re.search(r"BitOr", x[2])]
    cx.check(len(cl) == 1 and len(se) == 1, "with_tag clears bit 31, then sets it when tagging", st[0][0], {"stores": [x[2] for x in st]}, key="with_tag")
    if cl and se:
        cx.check(wt.reaches(cl[0][0], se[0][0]), "clear before set", se[0][0], key="clear-then-set")
        cx.flow(wt, se[0][2], [r"^\(\$1\.0 BitOr \(\$2 Shl const:31\)\)$"], [r"Shl const:(?!31\))"], "bit 31 := tag", se[0][0])
    tg = cx.fn(r"^zalsa::IngredientIndex::tag$")
    cx.flow(tg, tg.origin_local(0), [r"^\(\(\$1\.0 BitAnd Not\(const:zalsa::IngredientIndex::MAX_INDEX(=\d+)?\)\) Ne const:0\)$"], [r" Eq const:0"], "tag() tests bit 31")
    ky = cx.fn(r"^zalsa_local::QueryEdge::key$")
    cx.flow(ky, ky.origin_local(0), [r"^key::DatabaseKeyIndex::new\(zalsa::IngredientIndex::with_tag\(\$1\.ingredient, const:0\), zalsa_local::QueryEdge::id\(\$1\)\)$"], [r"with_tag\(\$1\.ingredient, const:1\)"], "key() strips the tag and restores the id")
    kd = cx.fn(r"^zalsa_local::QueryEdge::kind$")
    for s in cx.ret_sites(kd, "Output"):
        cx.only_if(kd, s, CallIs(r"IngredientIndex::tag$", True), "Output iff the tag bit is set")
    for s in cx.ret_sites(kd, "Input"):
        cx.only_if(kd, s, CallIs(r"IngredientIndex::tag$", False), "Input iff the tag bit is clear")
    out = cx.fn(r"^zalsa_local::QueryEdge::output$")
    cx.flow(out, out.origin_local(0), [r"ingredient: zalsa::IngredientIndex::with_tag\(key::DatabaseKeyIndex::ingredient_index\(\$1\), const:1\)"], [r"const:0\)"], "output edges carry the tag")
    inp = cx.fn(r"^zalsa_local::QueryEdge::input$")
    cx.flow(inp, inp.origin_local(0), [r"ingredient: key::DatabaseKeyIndex::ingredient_index\(\$1\)\}$"], [r"with_tag\(.*const:1"], "input edges carry no tag")
    ide = cx.fn(r"^zalsa_local::QueryEdge::id$")
    cx.flow(ide, ide.origin_local(0), [r"^id::Id::with_generation\(id::Id::from_index\(\$1\.index\), \$1\.generation\)$"], [], "id() restores index and generation")


H_EXTRA = "zalsa_local::QueryRevisionsExtraInner"
T_PACKED = "zalsa_local::PackedQueryEdge"
T_WIDE = "zalsa_local::QueryEdge"


@ob("C25.3", ["C25", "C23", "C01"], "a reader (or the destructor) that interprets the allocation with another header or edge type than the writer used reads edges at the wrong offset / with the wrong width", kind="TABLE (writer/reader/destructor agreement on generic instantiations)")
def c25_3(cx):
    """OriginAndExtra: for each (extra?, packed|wide) combination the constructor, origin() and Drop use the same SliceWithHeader<H, E> instantiation: H = QueryRevisionsExtraInner iff the tag says WithExtra, E = PackedQueryEdge iff the tag says Packed; QueryEdges::packed/wide wraps the matching slice; allocate_derived_with_header returns (Packed, packed allocation) / (Wide, wide allocation), spills the already packed prefix through PackedQueryEdge::edge in order, then the offending edge, then the rest; metadata = number of edges."""
    lay = r"OriginAndExtraTag::layout\("
    elay = r"QueryOriginTag::layout\("
    for path, callee in ((r"^zalsa_local::OriginAndExtra::origin$", r"SliceWithHeader::<H, T>::slice$"), (r"^<zalsa_local::OriginAndExtra as std::ops::Drop>::drop$", r"SliceWithHeader::<H, T>::from_raw_parts$")):
        b = cx.fn(path)
        sites = cx.some_calls(b, callee, 4, "SliceWithHeader instantiations in " + b.short)
        seen = set()
        for s in sites:
            h, t = s.node()["fn"]["gargs"][:2]
            seen.add((h, t))
            cx.only_if(b, s, VariantIn(lay, {"WithExtra"} if h == H_EXTRA else {"WithoutExtra"}, desc="tag layout is %s" % ("WithExtra" if h == H_EXTRA else "WithoutExtra")), "%s: header type %s is used exactly for that tag layout" % (b.short, h.split("::")[-1]))
            cx.only_if(b, s, VariantIn(elay, {"Packed"} if t == T_PACKED else {"Wide"}, desc="edge layout is %s" % ("Packed" if t == T_PACKED else "Wide")), "%s: edge type %s is used exactly for that edge layout" % (b.short, t.split("::")[-1]))
            cx.flow(b, cx.arg(s, 0), [r"^\$1\.payload\.allocation$"], [], "%s: the allocation interpreted is this origin's" % b.short, s)
            cx.flow(b, cx.arg(s, 1), [r"^\$1\.metadata$"], [r"^const:"], "%s: the slice length is the stored edge count" % b.short, s)
        cx.check(seen == {(H_EXTRA, T_WIDE), (H_EXTRA, T_PACKED), ("()", T_WIDE), ("()", T_PACKED)}, "%s covers all four layouts" % b.short, sites[0], {"seen": sorted(seen)}, key="four-layouts " + b.short)
    o = cx.fn(r"^zalsa_local::OriginAndExtra::origin$")
    for s in o.calls(r"^zalsa_local::QueryEdges::<'a>::(packed|wide)$"):
        a = cx.arg(s, 0)
        want = T_PACKED if o.callee(s).endswith("packed") else T_WIDE
        m = re.search(r"SliceWithHeader::<H, T>::slice", a)
        src = [x for x in o.calls(r"SliceWithHeader::<H, T>::slice$") if o.reaches(x, s) and s.bb in o.reachable(x.node()["t"], "normal", cut_blocks={y.bb for y in o.calls(r"SliceWithHeader::<H, T>::slice$") if y != x})]
        cx.check(bool(src) and all(x.node()["fn"]["gargs"][1] == want for x in src), "QueryEdges::%s wraps a slice of %s" % (o.callee(s).split("::")[-1], want.split("::")[-1]), s, key="wrap " + o.callee(s).split("::")[-1] + " %d" % s.bb)
    for path, h, tagfn in ((r"^zalsa_local::OriginAndExtra::new_derived_without_extra$", "()", "without_extra"), (r"^zalsa_local::OriginAndExtra::new_derived_with_extra$", H_EXTRA, "with_extra")):
        b = cx.fn(path)
        al = cx.one_call(b, r"OriginAndExtra::allocate_derived_with_header$", "allocate_derived_with_header in " + b.short)
        cx.check(al.node()["fn"]["gargs"][0] == h, "%s allocates with header type %s" % (b.short, h.split("::")[-1]), al, {"gargs": al.node()["fn"]["gargs"][:1]}, key="alloc-header " + b.short)
        cx.one_call(b, r"OriginAndExtraTag::%s$" % tagfn, "tag constructor in " + b.short)
        other = "with_extra" if tagfn == "without_extra" else "without_extra"
        cx.check(not b.calls(r"OriginAndExtraTag::%s$" % other), "%s tags the allocation as %s" % (b.short, tagfn), al, key="tag " + b.short)
        ro = b.origin_local(0)
        cx.flow(b, ro, [r"tag: zalsa_local::OriginAndExtraTag::%s\(zalsa_local::QueryOriginTag::derived\(\$2, zalsa_local::OriginAndExtra::allocate_derived_with_header\(.*\)\.0\)\), payload: OriginAndExtraPayload\{allocation: .*allocate_derived_with_header\(.*\)\.1\}, metadata: .*allocate_derived_with_header\(.*\)\.2\}$" % tagfn], [], "%s stores (tag(kind, returned layout), returned allocation, returned length)" % b.short)
    a = cx.fn(r"^zalsa_local::OriginAndExtra::allocate_derived_with_header$")
    for s in a.aggregates(r".*"):
        pass
    rets = [(site, a._origin_def(site, kind, node, 0, None, ())) for site, kind, node in value_defs(a, 0)]
    cx.require(len(rets) == 2, "allocate_derived_with_header: two return forms")
    for site, o_ in rets:
        if "QueryEdgeLayout::Wide" in o_:
            cx.flow(a, o_, [r"^tuple\{0: QueryEdgeLayout::Wide\{\}, 1: zalsa_local::SliceWithHeader::<H, T>::into_raw\(zalsa_local::SliceWithHeaderBuilder::<H, T>::finish\(zalsa_local::SliceWithHeader::<H, T>::allocate\(.*\), \$2\)\), 2: "], [], "Wide is returned with the wide allocation", site)
        else:
            cx.flow(a, o_, [r"^tuple\{0: QueryEdgeLayout::Packed\{\}, 1: zalsa_local::SliceWithHeader::<H, T>::into_raw\(zalsa_local::SliceWithHeaderBuilder::<H, T>::finish\(zalsa_local::SliceWithHeader::<H, T>::allocate\(.*\), \$2\)\), 2: "], [], "Packed is returned with the packed allocation", site)
    fin = {s.node()["fn"]["gargs"][1]: s for s in a.calls(r"SliceWithHeaderBuilder::<H, T>::finish$")}
    cx.check(set(fin) == {T_PACKED, T_WIDE}, "one packed and one wide builder are finished", None, {"finish": sorted(fin)}, key="two-builders", body=a)
    # which finish feeds which layout: the Wide return is dominated by the wide finish
    for site, o_ in rets:
        want = T_WIDE if "QueryEdgeLayout::Wide" in o_ else T_PACKED
        cx.check(a.site_dominates(fin[want], site) if want in fin else False, "the %s layout is paired with the %s builder's allocation" % ("Wide" if want == T_WIDE else "Packed", want.split("::")[-1]), site, key="pair " + want)
    # spill order: packed prefix (through PackedQueryEdge::edge), the offending edge, the rest
    exts = [s for s in a.calls(r"SliceWithHeaderBuilder::<H, T>::extend$")]
    push_w = [s for s in a.calls(r"SliceWithHeaderBuilder::<H, T>::push$") if s.node()["fn"]["gargs"][1] == T_WIDE]
    cx.require(len(exts) == 2 and len(push_w) == 1, "spill sequence: extend(prefix), push(edge), extend(rest)")
    pre = [s for s in exts if "PackedQueryEdge::edge" in cx.arg(s, 1) or "initialized_slice" in cx.arg(s, 1)]
    rest = [s for s in exts if s not in pre]
    cx.require(len(pre) == 1 and len(rest) == 1, "prefix/rest extends")
    cx.check(a.site_dominates(pre[0], push_w[0]) and a.site_dominates(push_w[0], rest[0]), "on a spill the edge sequence is preserved: already-packed prefix, then the edge that did not fit, then the rest", push_w[0], key="spill-order")
    cx.flow(a, cx.arg(pre[0], 1), [r"fn:zalsa_local::PackedQueryEdge::edge"], [], "the packed prefix is unpacked with PackedQueryEdge::edge", pre[0])
    cx.check(not a.calls(r"Iterator::rev$"), "no reversal while spilling", pre[0], key="no-rev")
    ln = a.calls(r"ExactSizeIterator::len$")
    cx.check(len(ln) == 1, "metadata is the iterator's length", ln[0] if ln else None, key="len", body=a)
    ce = cx.fn(r"^zalsa_local::OriginAndExtra::clear_edges$") if "persistence" not in cx.facts.features else None
    if ce is not None:
        nd = cx.one_call(ce, r"OriginAndExtra::new_derived_with_kind$", "rebuild in clear_edges")
        cx.flow(ce, cx.arg(nd, 2), [r"^QueryRevisionsExtra\{0: std::option::Option::<T>::map\(zalsa_local::OriginAndExtra::extra_mut\(\$1\), closure:"], [r"Option::None"], "clearing edges moves the extra data into the rebuilt origin", nd)


@ob("C23.3", ["C23", "C05"], "fetch() unwraps the memo's value unchecked: a value-less memo returned by refresh_memo is undefined behaviour", kind="ONLYIF (Option typestate before unwrap_unchecked)")
def c23_3(cx):
    """Every unwrap_unchecked of a memo value in the crate is in fetch(), applied to refresh_memo's result; refresh_memo returns only fetch_hot's Some (guarded by value.is_some(): C01.4a) or fetch_cold's Some: the old memo (guarded by value.is_some(): C01.4b), execute's result (Memo::new(Some(..)): C01.7) or fetch_cold_cycle's result (an existing memo guarded by value.is_some(), or a fresh Memo::new(Some(cycle_initial)))."""
    n = 0
    for s in cx.facts.call_sites_of(r"^std::option::Option::<T>::unwrap_unchecked$"):
        if "Memo::<C>::value" in cx.arg(s, 0):
            n += 1
            ok = re.search(r"fetch::<impl function::IngredientImpl<C>>::fetch$", s.body.path) is not None and "refresh_memo(" in cx.arg(s, 0)
            cx.check(ok, "a memo's value is unwrapped unchecked only in fetch, on refresh_memo's result", s, key="unwrap-site " + s.body.path)
    cx.require(n >= 1, "unwrap_unchecked of a memo value")
    c = cx.fn(r"^function::fetch::<impl function::IngredientImpl<C>>::fetch_cold_cycle$")
    memo = r"get_memo_from_table_for\(\$1, \$2, \$5, \$7\)"
    some = VariantIn(memo + r".*\.value$", {"Some"}, desc="memo.value is Some")
    dead = cx.facts.dead_end_blocks(c)
    for site, kind, node in value_defs(c, 0):
        o = c._origin_def(site, kind, node, 0, None, ())
        if site.bb in dead:
            continue  # the `Panic` strategy arm: the call never returns
        if re.match(r"^function::IngredientImpl::<C>::extend_memo_lifetime\(", o):
            cx.only_if(c, site, some, "fetch_cold_cycle returns an existing memo only if it has a value")
        elif re.match(r"^function::IngredientImpl::<C>::insert_memo\(.*function::memo::Memo::<C>::new\(Option::Some\{", o):
            cx.check(True, "fetch_cold_cycle otherwise returns a memo it just built with Some(value)", site, key="fresh-some")
        else:
            cx.check(False, "fetch_cold_cycle returns a memo whose value is not known to be present", site, {"origin": o[:200]}, key="unknown-return")
    r = cx.fn(r"^function::fetch::<impl function::IngredientImpl<C>>::refresh_memo$")
    ret_cases(cx, r, [(r"fetch_hot\(.*\)@Some\.0$", [], "fetch_hot's memo"), (r"fetch_cold\(.*\)@Some\.0$", [], "fetch_cold's memo")], [], "refresh_memo")


@ob("C25.4", ["C25", "C11", "C06", "C01"], "an iterator that decodes packed slots as wide ones, walks backwards when asked forwards, or classifies an edge by anything but its tag hands dependents a different edge list than was stored", kind="FLOW+ONLYIF (reader table)")
def c25_4(cx):
    """QueryEdges::iter keeps the representation (Packed slice -> Packed iterator, Wide -> Wide); QueryEdgeIter::next / next_back step the underlying slice iterator in the same direction and decode packed slots with PackedQueryEdge::edge; len() is the slice length; inputs() yields edge.key() exactly for kind()==Input; iter_outputs yields exactly kind()==Output of the wide slice (packed origins hold no outputs: C25.2); output_edges maps with QueryEdge::key."""
    it = cx.fn(r"^zalsa_local::QueryEdges::<'a>::iter$")
    ro = it.origin_local(0)
    cx.flow(it, ro, [r"^QueryEdgeIter\{data: phi\{(QueryEdgeIterData::Packed\{0: core::slice::<impl \[T\]>::iter\(\$1\.data@Packed\.0\)\} \| QueryEdgeIterData::Wide\{0: core::slice::<impl \[T\]>::iter\(\$1\.data@Wide\.0\)\}|QueryEdgeIterData::Wide\{0: core::slice::<impl \[T\]>::iter\(\$1\.data@Wide\.0\)\} \| QueryEdgeIterData::Packed\{0: core::slice::<impl \[T\]>::iter\(\$1\.data@Packed\.0\)\})\}\}$"], [r"Iterator::rev"], "iter(): each representation yields its own forward slice iterator")
    for path, step in ((r"^<zalsa_local::QueryEdgeIter<'_> as std::iter::Iterator>::next$", r"<Iter as std::iter::Iterator>::next"), (r"^<zalsa_local::QueryEdgeIter<'_> as std::iter::DoubleEndedIterator>::next_back$", r"<Iter as std::iter::DoubleEndedIterator>::next_back")):
        b = cx.fn(path)
        other = r"next_back" if step.endswith("::next") else r"Iterator>::next\("
        defs = value_defs(b, 0)
        cx.require(len(defs) == 2, b.short + ": two arms")
        seen = set()
        for site, kind, node in defs:
            o = b._origin_def(site, kind, node, 0, None, ())
            if "Packed" in o:
                seen.add("P")
                cx.flow(b, o, [r"^std::option::Option::<T>::map\(" + re.escape(step) + r"\(\$1\.data@Packed\.0\), fn:zalsa_local::PackedQueryEdge::edge\)$"], [other], "%s: packed slots are stepped in the requested direction and decoded by PackedQueryEdge::edge" % b.short, site)
                cx.only_if(b, site, VariantIn(r"^\$1\.data$", {"Packed"}, desc="self.data is Packed"), "%s: the packed decoder runs only on a packed iterator" % b.short)
            else:
                seen.add("W")
                cx.flow(b, o, [r"^" + re.escape(step) + r"\(\$1\.data@Wide\.0\)$"], [other, r"PackedQueryEdge::edge"], "%s: wide slots are stepped in the requested direction and copied" % b.short, site)
        cx.check(seen == {"P", "W"}, b.short + " handles both representations", defs[0][0], key="both " + b.short)
    ic = cx.fn(r"^zalsa_local::QueryOriginRef::<'a>::inputs::\{closure#0\}$")
    kind = r"QueryEdge::kind\(\$2\)"
    for s in cx.ret_sites(ic, "Some"):
        cx.only_if(ic, s, VariantIn(kind, {"Input"}, desc="edge.kind() is Input"), "inputs() yields an edge only if it is an input")
        cx.flow(ic, ic._origin_def(s, "assign", s.node(), 0, None, ()), [r"^Option::Some\{0: zalsa_local::QueryEdge::key\(\$2\)\}$"], [], "inputs() yields that edge's key", s)
    for s in cx.ret_sites(ic, "None"):
        cx.only_if(ic, s, VariantIn(kind, {"Output"}, desc="edge.kind() is Output"), "inputs() drops an edge only if it is an output")
    inp = cx.fn(r"^zalsa_local::QueryOriginRef::<'a>::inputs$")
    cx.flow(inp, inp.origin_local(0), [r"^<QueryEdgeIter as std::iter::Iterator>::filter_map\(zalsa_local::QueryEdges::<'a>::iter\(zalsa_local::QueryOriginRef::<'a>::edges\(\$1\)\), closure:.*inputs::\{closure#0\}\[\]\)$"], [r"Iterator::rev|skip|take"], "inputs() = edges().iter().filter_map(..) over all edges, forwards")
    oc = cx.fn(r"^zalsa_local::QueryEdges::<'a>::iter_outputs::\{closure#0\}$")
    for site, kind_, node in value_defs(oc, 0):
        o = oc._origin_def(site, kind_, node, 0, None, ())
        if o == "const:1":
            cx.only_if(oc, site, VariantIn(kind, {"Output"}, desc="edge.kind() is Output"), "iter_outputs keeps an edge only if it is an output")
        elif o == "const:0":
            cx.only_if(oc, site, VariantIn(kind, {"Input"}, desc="edge.kind() is Input"), "iter_outputs drops an edge only if it is an input")
        else:
            cx.check(False, "iter_outputs filter: unknown result", site, {"origin": o}, key="filter-unknown")
    io = cx.fn(r"^zalsa_local::QueryEdges::<'a>::iter_outputs$")
    cx.flow(io, io.origin_local(0), [r"^<Copied as std::iter::Iterator>::filter\(<Iter as std::iter::Iterator>::copied\(core::slice::<impl \[T\]>::iter\(phi\{(\$1\.data@Wide\.0 \| array\(\)\[RangeFull\{\}\]|array\(\)\[RangeFull\{\}\] \| \$1\.data@Wide\.0)\}\)\), closure:.*iter_outputs::\{closure#0\}\[\]\)$"], [r"Iterator::rev|skip|take"], "iter_outputs filters the whole wide slice (empty for packed origins)")
    oe = cx.fn(r"^zalsa_local::output_edges$")
    cx.flow(oe, oe.origin_local(0), [r"^<Filter as std::iter::Iterator>::map\(zalsa_local::QueryEdges::<'a>::iter_outputs\(\$1\), fn:zalsa_local::QueryEdge::key\)$"], [], "output_edges = iter_outputs().map(QueryEdge::key)")
    ed = cx.fn(r"^zalsa_local::QueryOriginRef::<'a>::edges$")
    for site, kind_, node in value_defs(ed, 0):
        o = ed._origin_def(site, kind_, node, 0, None, ())
        if re.search(r"^\$1@Derived(Untracked)?\.0$", o):
            continue
        cx.only_if(ed, site, VariantIn(r"^\$1$", {"Assigned"}, desc="origin is Assigned"), "edges() is empty only for Assigned origins")
    ou = cx.fn(r"^zalsa_local::QueryOriginRef::<'a>::outputs$")
    nones = ou.aggregates(r"option::Option$", "None")
    cx.sites(nones, 1, "outputs(): the None arm")
    for s in nones:
        cx.only_if(ou, s, VariantIn(r"^\$1$", {"Assigned"}, desc="origin is Assigned"), "outputs() is empty only for Assigned origins")


@ob("C23.2", ["C23"], "extend_memo_lifetime transmutes a memo borrow to the ingredient's lifetime: a memo that is not owned by this ingredient's memo table (a temporary, a memo of another table) dangles once its real owner drops it", kind="WRITERS+FLOW (unsafe-contract at every caller)")
def c23_2(cx):
    """Every call of extend_memo_lifetime (floor 4) passes self unchanged and a memo that is either the result of get_memo_from_table_for(self, zalsa, ..) in the same body, or (insert_memo) the allocation that was just handed to insert_memo_into_table_for(self, zalsa, id, <same pointer>, index); get_memo_from_table_for returns the table's own entry (memo_table_for(id).get(index)); the transmute in extend_memo_lifetime is applied to its argument."""
    sites = cx.facts.call_sites_of(r"^function::IngredientImpl::<C>::extend_memo_lifetime$")
    cx.sites(sites, 4, "extend_memo_lifetime call sites")
    for s in sites:
        b = s.body
        a = cx.args(s)
        cx.check(a[0] == "$1", "the lifetime is extended to this ingredient's own borrow", s, {"self": a[0]}, key="self " + b.path)
        if re.search(r"^function::IngredientImpl::<C>::insert_memo$", b.path):
            ins = cx.one_call(b, r"insert_memo_into_table_for$", "table insert in insert_memo")
            ia = cx.args(ins)
            leak = r"std::boxed::Box::<T, A>::leak\(std::boxed::Box::<T>::new\(\$4\)\)"
            cx.flow(b, a[1], [r"^" + leak + r"$", r"^std::ptr::NonNull::<T>::as_ref\(.*" + leak], [], "insert_memo extends the memo it just allocated", s)
            cx.flow(b, ia[3], [leak], [], "and that allocation is what was inserted into the table", ins)
            cx.check(ia[0] == "$1" and ia[1] == "$2" and ia[2] == "$3" and ia[4] == "$5", "into the slot of the key asked", ins, {"args": ia}, key="insert-slot")
            cx.order(ins, s, "the table owns the memo before its borrow is extended")
        else:
            cx.flow(b, a[1], [r"^function::memo::<impl function::IngredientImpl<C>>::get_memo_from_table_for\(\$1, \$2, [^()]*\)(\?|@Some\.0)$"], [r"Box::|Memo::<C>::new"], "%s extends a memo loaded from this ingredient's memo table" % b.short, s)
    g = cx.fn(r"^function::memo::<impl function::IngredientImpl<C>>::get_memo_from_table_for$")
    for site in cx.ret_sites(g, "Some"):
        o = g._origin_def(site, "assign", site.node(), 0, None, ())
        cx.flow(g, o, [r"^Option::Some\{0: (std::ptr::NonNull::<T>::as_ref\()?table::memo::MemoTableWithTypes::<'.*>::get(::<[^()]*>)?\(zalsa::Zalsa::memo_table_for(::<[^()]*>)?\(\$2, \$3\), \$4\)\?\)?\}$"], [], "get_memo_from_table_for returns the table entry for (id, index)", site)
    e = cx.fn(r"^function::IngredientImpl::<C>::extend_memo_lifetime$")
    cx.flow(e, e.origin_local(0), [r"^transmute\(\$2\)$"], [r"transmute\(\$1"], "extend_memo_lifetime returns its argument")


@ob("C24.2", ["C24", "C23", "C16"], "pages are typed per ingredient: a page cached or recycled under another ingredient's key receives slots of a foreign type (and two ingredients hand out ids from one page)", kind="FLOW (per-ingredient keying of the page cache and the shared list)")
def c24_2(cx):
    """ZalsaLocal::allocate / allocate_cold: the cached page is looked up, inserted and pushed under the ingredient asked ($3); the slot is allocated on the page view of exactly that page index with that page index; the shared unfilled-page list is keyed by ingredient on both sides (take_non_full_page / record_unfilled_page) and record_unfilled_pages gives every (ingredient, page) pair back unchanged."""
    zl = r"^zalsa_local::ZalsaLocal::"
    a = cx.fn(zl + r"allocate$")
    g = cx.one_call(a, r"HashMap::<K, V, S(, A)?>::get$", "page cache lookup in allocate")
    cx.check(cx.arg(g, 0) == "$1.most_recent_pages" and cx.arg(g, 1) == "$3", "allocate looks the cached page up under the ingredient asked", g, {"args": cx.args(g)}, key="cache-key")
    for b in (a, cx.fn(zl + r"allocate_cold$")):
        for al in cx.some_calls(b, r"^table::PageView::<'db, T>::allocate$", 1, "slot allocation in " + b.short):
            view, page = cx.arg(al, 0), cx.arg(al, 1)
            cx.check(view == "table::Table::page(zalsa::Zalsa::table($2), %s)" % page, "%s: the slot is allocated on the view of the same page whose index goes into the id" % b.short, al, {"view": view[:200], "page": page[:200]}, key="view-page " + b.short)
    c = cx.fn(zl + r"allocate_cold$")
    en = cx.one_call(c, r"HashMap::<K, V, S(, A)?>::entry$", "page cache entry in allocate_cold")
    cx.check(cx.arg(en, 0) == "$1.most_recent_pages" and cx.arg(en, 1) == "$3", "allocate_cold caches under the ingredient asked", en, {"args": cx.args(en)}, key="cold-cache-key")
    ins = cx.one_call(c, r"HashMap::<K, V, S(, A)?>::insert$", "page cache insert in allocate_cold")
    cx.check(cx.arg(ins, 1) == "$3", "a new page is cached under the ingredient asked", ins, {"key": cx.arg(ins, 1)}, key="cold-insert-key")
    pp = cx.one_call(c, r"^table::Table::push_page$", "push_page in allocate_cold")
    cx.check(cx.arg(pp, 1) == "$3", "a new page is created for the ingredient asked", pp, {"arg": cx.arg(pp, 1)}, key="push-ingredient")
    cb = cx.closure_passed_to(c, r"or_insert_with$")
    fo = cx.one_call(cb, r"^table::Table::fetch_or_push_page$", "fetch_or_push_page")
    cx.flow(cb, cx.arg(fo, 1), [r"^\$1\.1$"], [r"^const:"], "the first page is fetched for the captured ingredient", fo)
    t = cx.fn(r"^table::Table::take_non_full_page$")
    gm = cx.one_call(t, r"HashMap::<K, V, S(, A)?>::get_mut$", "shared list lookup")
    cx.check(cx.arg(gm, 1) == "$2", "take_non_full_page takes a page of the ingredient asked", gm, key="take-key")
    r = cx.fn(r"^table::Table::record_unfilled_page$")
    en = cx.one_call(r, r"HashMap::<K, V, S(, A)?>::entry$", "shared list entry")
    pu = cx.one_call(r, r"^std::vec::Vec::<T(, A)?>::push$", "push to shared list")
    cx.check(cx.arg(en, 1) == "$2" and cx.arg(pu, 1) == "$3", "record_unfilled_page files the page under its ingredient", pu, {"key": cx.arg(en, 1), "page": cx.arg(pu, 1)}, key="record-key")
    fp = cx.fn(r"^table::Table::fetch_or_push_page$")
    tk = cx.one_call(fp, r"^table::Table::take_non_full_page$", "take in fetch_or_push_page")
    ph = cx.one_call(fp, r"^table::Table::push_page$", "push in fetch_or_push_page")
    cx.check(cx.arg(tk, 1) == "$2" and cx.arg(ph, 1) == "$2", "fetch_or_push_page stays within the ingredient asked", tk, key="fetch-key")
    ru = cx.fn(zl + r"record_unfilled_pages$")
    rc = cx.closure_passed_to(ru, r"^std::iter::Iterator::for_each$")
    rp = cx.one_call(rc, r"^table::Table::record_unfilled_page$", "record_unfilled_page in the drain")
    cx.check(cx.args(rp)[1:] == ["$2.0", "$2.1"], "every drained (ingredient, page) pair is given back unchanged", rp, {"args": cx.args(rp)}, key="drain-pairs")
    pn = cx.fn(r"^table::Page::new$")
    agg = cx.one(pn.aggregates(r"^table::Page$"), "Page aggregate")
    cx.flow(pn, pn._origin_def(agg, "assign", agg.node(), 0, None, ()), [r"ingredient: \$1[,}]"], [r"ingredient: const:"], "a page remembers the ingredient it was created for", agg)


@ob("C23.8", ["C23", "C25"], "every allocation an origin owns must be returned exactly by its destructor: an arm that forgets its allocation leaks it for the life of the process (also after the database is dropped); an arm that frees what another layout owns is a double free / type confusion", kind="TABLE (allocation pairing constructor <-> Drop)")
def c23_8(cx):
    """OriginAndExtra: assigned_with_extra boxes an AssignedOriginAndExtra (Box::into_raw) and tags it (Assigned, WithExtra); Drop reclaims exactly that (Box::from_raw of AssignedOriginAndExtra) only under (Assigned, WithExtra) and every path of Drop with that tag reaches it; plain assigned origins own nothing; the four derived layouts are covered by C25.3."""
    c = cx.fn(r"^zalsa_local::OriginAndExtra::assigned_with_extra$")
    ir = cx.one_call(c, r"^std::boxed::Box::<T>::into_raw$|Box::<T, A>::into_raw$", "Box::into_raw in assigned_with_extra")
    cx.flow(c, cx.arg(ir, 0), [r"^std::boxed::Box::<T>::new\(AssignedOriginAndExtra\{"], [], "the boxed value is an AssignedOriginAndExtra", ir)
    ro = c.origin_local(0)
    cx.flow(c, ro, [r"tag: zalsa_local::OriginAndExtraTag::with_extra\(zalsa_local::QueryOriginTag::assigned\(\)\)"], [r"without_extra"], "and the origin is tagged (Assigned, WithExtra)")
    cx.flow(c, ro, [r"payload: OriginAndExtraPayload\{allocation: .*Box::<T(, A)?>::into_raw\("], [], "with that allocation as payload")
    d = cx.fn(r"^<zalsa_local::OriginAndExtra as std::ops::Drop>::drop$")
    kind = r"QueryOriginTag::kind\("
    lay = r"OriginAndExtraTag::layout\("
    frs = [s for s in d.calls(r"^std::boxed::Box::<T>::from_raw$|Box::<T, A>::from_raw$")]
    cx.check(len(frs) >= 1, "Drop reclaims the boxed AssignedOriginAndExtra", None, key="assigned-extra-freed", body=d)
    for s in frs:
        cx.only_if(d, s, VariantIn(kind, {"Assigned"}, desc="origin kind is Assigned"), "the Box is reclaimed only for Assigned origins")
        cx.only_if(d, s, VariantIn(lay, {"WithExtra"}, desc="layout is WithExtra"), "and only when it was allocated (WithExtra)")
        cx.flow(d, cx.arg(s, 0), [r"\$1\.payload\.allocation"], [], "the pointer reclaimed is this origin's payload", s)
        ga = s.node()["fn"].get("gargs") or []
        cx.check(any("AssignedOriginAndExtra" in g for g in ga), "reclaimed with the type it was allocated with", s, {"gargs": ga}, key="from_raw-type")
    if frs:
        cx.skipped_only_if(d, frs[0], [VariantIn(kind, {"Derived", "DerivedUntracked"}, desc="origin is derived"), VariantIn(lay, {"WithoutExtra"}, desc="no extra allocated")], "Drop skips the reclamation only for origins that never allocated the box")
