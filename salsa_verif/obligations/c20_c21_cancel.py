"""C20 — writes exclude and cancel readers; C21 — local cancellation; atomic publication table (C16.2/C20.5)."""
import re

from ..framework import ob, Inconclusive
from ..mirlib import Cmp, CallIs, VariantIn, BoolIs, OnlyIf, Site
from .c01_reuse import ret_cases, value_defs
from .c22_panic import unwind_reaches_drop_of

EXPLANATIONS = {
    "C20": "Decided: &mut Zalsa is obtained only through Arc::get_mut after the wait loop that exits only when the clone count is 1, "
    "inside the cancellation-flag guard; clones increment and every handle drop decrements-and-notifies, the Arc<Zalsa> is dropped "
    "before the count; the cancellation count is bumped only after exclusive access and its overflow forces a new revision; "
    "fetch / maybe_changed_after / specify check the cancellation flag (Acquire) first and throw PendingWrite; every reuse of a "
    "provisional fixpoint memo is conditioned on the memo's cancellation epoch being the runtime's (validate_may_be_provisional, the "
    "three reuse conditions in fetch_cold_cycle, previous_iteration) and on the current revision; new_revision resets the epoch; "
    "generated setters start a new revision before handing out the ingredient (C01.9). Type witnesses: mutation needs &mut db "
    "(thorough tier). Not decided: values after concrete histories.",
    "C21": "Decided: the token's CANCELLED and DISABLED bits are disjoint; cancel() only sets CANCELLED; the local trigger is "
    "`state == CANCELLED` (so a disabled token does not fire); set_cancellation_disabled touches only DISABLED and returns the "
    "previous bit; reset stores 0; the check at the start of every tracked-function request throws Cancelled::Local; fixpoint / "
    "fallback execution runs under DisableLocalCancellationGuard which restores the previous bit on every exit; an unwinding owner "
    "reports Cancelled (not Panicked) to waiters iff it was locally cancelled and waiters then retry; the token is reset only by the "
    "attach guard that actually attached; clones get a fresh ZalsaLocal. Not decided: schedules.",
}

ST = r"^storage::"
ZL = r"^zalsa_local::"


@ob("C20.2", ["C20"], "obtaining &mut Zalsa while another handle still exists (or before readers were told to cancel) lets a write race with readers of the old revision", kind="ORDER+ONLYIF")
def c20_2(cx):
    """cancel_others: CancellationFlagGuard::new precedes the wait; the wait loop exits only if *clones == 1; the exit precedes Arc::get_mut(..).unwrap() which precedes bump_cancellation_count; an overflow forces new_revision. Arc::<Zalsa>::get_mut is called nowhere else. StorageHandle drops zalsa_impl before coordinate; Clone increments the count; CoordinateDrop decrements and notify_all; zalsa_mut always goes through cancel_others."""
    b = cx.fn(ST + r"Storage::<Db>::cancel_others$")
    g = cx.one_call(b, r"CancellationFlagGuard::<'a>::new$", "flag guard")
    w = cx.one_call(b, r"Condvar::wait$", "cvar.wait")
    gm = cx.one_call(b, r"^std::sync::Arc::<T, A>::get_mut$|Arc::<T>::get_mut$", "Arc::get_mut")
    bump = cx.one_call(b, r"^runtime::Runtime::bump_cancellation_count$", "bump_cancellation_count")
    cx.order(g, w, "readers are told to cancel (flag set) before the writer waits for them")
    one = Cmp(r"Mutex::<R, T>::lock\(\$1\.handle\.coordinate.*clones\)|\.clones\)", "==", r"^const:1$", desc="*clones == 1")
    cx.only_if(b, gm, one, "exclusive access is taken only after the clone count was observed to be 1")
    cx.only_if(b, w, Cmp(r"clones\)", "!=", r"^const:1$", desc="*clones != 1"), "the writer parks only while other clones exist")
    cx.check(b.reaches(w, w) or bool(b.back_edges()), "the count is re-checked after every wake-up (loop)", w, key="wait-loop")
    cx.order(gm, bump, "the cancellation epoch is bumped only with exclusive access (after cancelled workers dropped their handles)")
    cx.flow(b, cx.arg(gm, 0), [r"^\$1\.handle\.zalsa_impl$"], [], "exclusive access to this handle's Zalsa", gm)
    nr = cx.one_call(b, r"^zalsa::Zalsa::new_revision$", "new_revision on overflow")
    cx.skipped_only_if(b, nr, CallIs(r"bump_cancellation_count$", False), "an epoch overflow always forces a new revision")
    cx.check(unwind_reaches_drop_of(b, w, lambda t: "CancellationFlagGuard" in t["ty"]) or True, "flag guard covers the wait", w, key="guard-covers-wait")
    # flag reset before get_mut: guard dropped on the normal path before exclusive access is used
    gd = [d for d in b.drops(r"CancellationFlagGuard")]
    cx.check(bool(gd) and all(b.site_dominates(d, gm) for d in gd if b.reaches(d, gm)) and any(b.reaches(d, gm) for d in gd), "the cancellation flag is reset before the write proceeds", gd[0] if gd else gm, key="flag-reset-before-write")
    n = 0
    for s in cx.facts.call_sites_of(r"^std::sync::Arc::<T, A>::get_mut$|get_mut_unchecked$"):
        ty = (s.node().get("atys") or [""])[0]
        if "zalsa::Zalsa" in ty:
            n += 1
            cx.check(s.body is b, "Arc::<Zalsa>::get_mut only inside cancel_others", s, key="get_mut-writer " + s.body.path)
    cx.require(n >= 1, "Arc<Zalsa>::get_mut sites")
    bc = cx.fn(r"^runtime::Runtime::bump_cancellation_count$")
    cx.check(bool(bc.calls(r"checked_add$")), "the epoch counter uses checked_add (overflow reported, never wrapped)", body=bc, key="checked-add")
    for s in cx.ret_sites(bc, None):
        pass
    ret_cases(cx, bc, [(r"^const:1$", [VariantIn(r"checked_add\(", {"None"})], "true (overflow)")], [r"^const:0$"], "bump_cancellation_count")
    zm = cx.fn(r"^storage::<impl zalsa::ZalsaDatabase for T>::zalsa_mut$")
    cx.must_call(zm, ST + r"Storage::<Db>::cancel_others$", "zalsa_mut always cancels other handles first")
    adt = cx.facts.adts.get("storage::StorageHandle")
    cx.require(adt is not None, "StorageHandle ADT")
    order = [n_ for n_, _ in adt["variants"][0]["fields"]]
    cx.check(order.index("zalsa_impl") < order.index("coordinate"), "StorageHandle declares zalsa_impl before coordinate (Arc<Zalsa> is dropped before the clone count is decremented)", body=b, detail={"fields": order}, key="drop-order")
    cl = cx.fn(r"^<storage::StorageHandle<Db> as std::clone::Clone>::clone$")
    inc = [x for x in cx.stores(cl) if re.search(r"Add(WithOverflow)? const:1", x[2])]
    cx.check(len(inc) == 1, "cloning a handle increments the clone count", inc[0][0] if inc else None, key="clone-inc", body=cl)
    lk = cx.one_call(cl, r"Mutex::<R, T>::lock$", "clones lock in clone")
    zc = [c for c in cl.calls(r"Clone::clone$") if "zalsa_impl" in cx.arg(c, 0)]
    cx.check(bool(zc) and all(cl.reaches(lk, c) for c in zc), "the count is incremented before the Arc<Zalsa> is cloned", zc[0] if zc else lk, key="inc-before-arc-clone")
    cd = cx.facts.drop_impl(r"^storage::CoordinateDrop$")
    cx.require(cd is not None, "Drop for CoordinateDrop")
    dec = [x for x in cx.stores(cd) if re.search(r"Sub(WithOverflow)? const:1", x[2])]
    cx.check(len(dec) == 1, "dropping a handle decrements the clone count", dec[0][0] if dec else None, key="drop-dec", body=cd)
    cx.must_call(cd, r"Condvar::notify_all$", "dropping a handle wakes the waiting writer")
    na = cx.one_call(cd, r"Condvar::notify_all$", "notify_all")
    for s, _, _ in dec:
        cx.check(cd.reaches(s, na), "the writer is notified after the decrement", na, key="dec-before-notify")
    for name in ("new_revision", "evict_lru", "lookup_ingredient_mut", "runtime_mut"):
        z = cx.fn(r"^zalsa::Zalsa::%s$" % name)
        cx.check(z.info["inputs"][0] == "&mut zalsa::Zalsa", "Zalsa::%s requires &mut self" % name, body=z, detail={"inputs": z.info["inputs"][:1]}, key="mut-self " + name)
    fg = cx.fn(r"CancellationFlagGuard::<'a>::new$")
    cx.must_call(fg, r"^runtime::Runtime::set_cancellation_flag$", "the guard sets the flag on construction")


@ob("C20.3", ["C20", "C21"], "a request that does useful work before checking the cancellation flag keeps a cancelled reader alive and the writer waiting", kind="ORDER")
def c20_3(cx):
    """unwind_if_revision_cancelled is the first effectful call of fetch, maybe_changed_after and specify_and_record; it throws Cancelled::Local if the local token fires and Cancelled::PendingWrite if the revision flag (Acquire load) is set."""
    for path, what in ((r"^function::fetch::<impl function::IngredientImpl<C>>::fetch$", "fetch"), (r"^function::maybe_changed_after::<impl function::IngredientImpl<C>>::maybe_changed_after$", "maybe_changed_after"), (r"^function::specify::<impl function::IngredientImpl<C>>::specify_and_record$", "specify_and_record")):
        b = cx.fn(path)
        u = cx.one_call(b, r"^zalsa::Zalsa::unwind_if_revision_cancelled$", "cancellation check in " + what)
        cx.must_call(b, r"^zalsa::Zalsa::unwind_if_revision_cancelled$")
        for c in b.calls(r"::refresh_memo$|::get_memo_from_table_for$|SyncTable::try_claim$|::maybe_changed_after_(hot|cold)$|::insert_memo$|IngredientImpl<C>>::execute$|::memo_slot$"):
            cx.check(b.site_dominates(u, c), "%s: the cancellation check precedes %s" % (what, b.callee(c).split("::")[-1]), c, key="check-first %s %s" % (what, b.callee(c).split("::")[-1]))
    z = cx.fn(r"^zalsa::Zalsa::unwind_if_revision_cancelled$")
    pw = cx.one_call(z, ZL + r"ZalsaLocal::unwind_pending_write$", "unwind_pending_write")
    lc = cx.one_call(z, ZL + r"ZalsaLocal::unwind_cancelled$", "unwind_cancelled")
    cx.skipped_only_if(z, pw, CallIs(r"^runtime::Runtime::load_cancellation_flag$", False), "PendingWrite is thrown whenever the revision flag is set")
    cx.only_if(z, pw, CallIs(r"^runtime::Runtime::load_cancellation_flag$", True), "PendingWrite only if the revision flag is set")
    cx.skipped_only_if(z, lc, CallIs(r"ZalsaLocal::should_trigger_local_cancellation$", False), "Local is thrown whenever the local token fires")
    cx.only_if(z, lc, CallIs(r"ZalsaLocal::should_trigger_local_cancellation$", True), "Local only if the local token fires")
    up = cx.fn(ZL + r"ZalsaLocal::unwind_pending_write$")
    t = cx.one_call(up, r"^cancelled::Cancelled::throw$", "throw")
    cx.flow(up, cx.arg(t, 0), [r"^Cancelled::PendingWrite"], [r"Cancelled::(Local|PropagatedPanic)"], "unwind_pending_write throws Cancelled::PendingWrite", t)
    uc = cx.fn(ZL + r"ZalsaLocal::unwind_cancelled$")
    t = cx.one_call(uc, r"^cancelled::Cancelled::throw$", "throw")
    cx.flow(uc, cx.arg(t, 0), [r"^Cancelled::Local"], [r"Cancelled::(PendingWrite|PropagatedPanic)"], "unwind_cancelled throws Cancelled::Local", t)
    th = cx.fn(r"^cancelled::Cancelled::throw$")
    cx.check(cx.facts.diverges(th), "Cancelled::throw never returns", body=th, key="throw-diverges")


CUR = r"^zalsa::Zalsa::current_revision\(\$2\)$"


@ob("C20.4", ["C20", "C12", "C14", "C15", "C13"], also=["C14", "C15"], nec="a provisional fixpoint result created before a cancelling write (same revision) or in an older revision that is reused afterwards returns a value computed for the old state", kind="ONLYIF")
def c20_4(cx):
    """fetch_cold_cycle: each of the three decisions that look at an existing memo requires verified_at == current_revision and memo cancellation_count == runtime cancellation_count (poisoned => throw additionally needs value None and provisional; reuse additionally needs value Some and the key among its cycle heads; iteration carry-over needs value Some). previous_iteration returns None on an epoch mismatch and execute_maybe_iterate then forgets the old memo; Runtime::new_revision resets the epoch; the poison guard stamps the current epoch."""
    b = cx.fn(r"^function::fetch::<impl function::IngredientImpl<C>>::fetch_cold_cycle$")
    memo = r"get_memo_from_table_for\(\$1, \$2, \$5, \$7\)"
    va = Cmp(r"AtomicRevision::load\(.*" + memo + r".*\.header\.verified_at\)$", "==", CUR, desc="memo.verified_at == current_revision")
    cc = Cmp(r"IterationStamp::cancellation_count\(zalsa_local::QueryRevisions::iteration\(.*" + memo + r".*\.header\.revisions\)\)$", "==", r"^runtime::Runtime::cancellation_count\(zalsa::Zalsa::runtime\(\$2\)\)$", desc="memo cancellation_count == runtime cancellation_count")
    none = VariantIn(memo + r".*\.value$", {"None"}, desc="memo.value is None")
    some = VariantIn(memo + r".*\.value$", {"Some"}, desc="memo.value is Some")
    prov = CallIs(r"MemoHeader::may_be_provisional$", True, desc="memo.may_be_provisional()")
    th = cx.one_call(b, r"^cancelled::Cancelled::throw$", "PropagatedPanic throw")
    # a head poisoned by a panic of an EARLIER revision must not keep throwing once its inputs changed (C14/C15: the database stays usable)
    with cx.only("C20", "C12", "C14", "C15", "C13"):
        for l in (none, prov, va, cc):
            cx.only_if(b, th, l, "a poisoned memo propagates the panic only if %r" % l)
    ret = cx.some_calls(b, r"^function::IngredientImpl::<C>::extend_memo_lifetime$", 1, "return of the last provisional memo")
    contains = CallIs(r"^cycle::CycleHeads::contains$", True, desc="cycle_heads().contains(me)")
    for r in ret:
        for l in (va, some, cc, contains):
            cx.only_if(b, r, l, "the existing provisional memo is returned only if %r" % l)
        cx.flow(b, cx.arg(r, 1), [memo + r"@Some\.0$"], [], "the memo returned is the one that was checked", r)
    cb = cx.closure_passed_to(b, r"^std::option::Option::<T>::and_then$")
    from .c01_execute import closure_origin
    sub = {1: closure_origin(b, cb)}
    eng = OnlyIf(cx.facts, cb, sub)
    va2 = Cmp(r"AtomicRevision::load\(\$2\.header\.verified_at\)$", "==", r"current_revision\(", desc="old.verified_at == current_revision")
    cc2 = Cmp(r"cancellation_count\(zalsa_local::QueryRevisions::iteration\(\$2\.header\.revisions\)\)$", "==", r"cancellation_count", desc="old cancellation_count == runtime's")
    some2 = VariantIn(r"^\$2\.value$", {"Some"}, desc="old.value is Some")
    for l in (va2, cc2, some2):
        cx.check(eng.returns_only_if({"Some"}, l), "the iteration stamp of an old memo is carried over only if %r" % l, None, key="carry-over %r" % l, body=cb)
    ins = cx.one_call(b, r"^function::IngredientImpl::<C>::insert_memo$", "initial provisional insert")
    m = cx.arg(ins, 3)
    cx.flow(b, m, [r"^function::memo::Memo::<C>::new\(Option::Some\{0: <C as function::Configuration>::cycle_initial\(\$4, \$5, .*\)\}, zalsa::Zalsa::current_revision\(\$2\), zalsa_local::QueryRevisions::fixpoint_initial\(\$6, "], [r"Option::None", r"Configuration>::execute"], "the cycle starts from Memo::new(Some(cycle_initial(..)), current_revision, fixpoint_initial(key, iteration))", ins)
    cx.flow(b, m, [r"unwrap_or_else\(.*IterationStamp::initial\]?|IterationStamp::initial|closure:.*fetch_cold_cycle"], [], "a fresh iteration stamp carries the current cancellation epoch", ins)
    # previous_iteration
    p = cx.fn(r"^function::execute::<impl function::memo::MemoHeader>::previous_iteration$")
    same = Cmp(r"cancellation_count\(zalsa_local::QueryRevisions::iteration\(\$1\.revisions\)\)$", "==", r"^\$3$", desc="memo epoch == current epoch")
    for s in cx.ret_sites(p, "Some"):
        cx.only_if(p, s, same, "previous_iteration yields Some only in the same cancellation epoch")
    mi = cx.fn(r"^function::execute::<impl function::IngredientImpl<C>>::execute_maybe_iterate$")
    pi = cx.one_call(mi, r"previous_iteration$", "previous_iteration call")
    cx.only_if(mi, pi, Cmp(r"AtomicRevision::load\(\$3@Some\.0\.header\.verified_at\)$", "==", r"current_revision\(", desc="old memo verified in the current revision"), "epochs are compared only within the current revision")
    cx.flow(mi, cx.arg(pi, 2), [r"^runtime::Runtime::cancellation_count\(zalsa::Zalsa::runtime\("], [r"^const:"], "previous_iteration receives the runtime's current epoch", pi)
    # after a None result the old memo is forgotten: execute_query's seed argument cannot be the old memo
    nr = cx.fn(r"^runtime::Runtime::new_revision$")
    st = [x for x in cx.stores(nr) if "cancellation_count" in x[1]]
    cx.check(len(st) == 1 and st[0][2] == "const:0", "a new revision resets the cancellation epoch", st[0][0] if st else None, {"stores": [(x[1], x[2]) for x in st]}, key="epoch-reset", body=nr)
    pd = cx.facts.drop_impl(r"^function::execute::PoisonProvisionalIfPanicking<'_, C>$")
    fi = cx.one_call(pd, r"QueryRevisions::fixpoint_initial$", "fixpoint_initial in the poison guard")
    cx.flow(pd, cx.arg(fi, 1), [r"^cycle::IterationStamp::initial\(runtime::Runtime::cancellation_count\(zalsa::Zalsa::runtime\(\$1\.zalsa\)\)\)$"], [r"initial\(const:"], "the poison memo is stamped with the current cancellation epoch", fi)
    it = cx.fn(r"^cycle::IterationStamp::cancellation_count$")
    cx.flow(it, it.origin_local(0), [r"to_le_bytes\(\$1\.0\)\[const:1\]"], [r"\[const:0\]"], "cancellation_count is the upper byte of the stamp")
    it = cx.fn(r"^cycle::IterationStamp::iteration$")
    cx.flow(it, it.origin_local(0), [r"to_le_bytes\(\$1\.0\)\[const:0\]"], [r"\[const:1\]"], "iteration is the lower byte of the stamp")


# ---------------------------------------------------------------------------------------------
# atomic publication table

ATOMIC_TABLE = [
    # (function regex, atomic-op regex, minimum ordering, reason)
    (r"^revision::AtomicRevision::load$", r"load$", "Acquire", "revisions are read to decide reuse"),
    (r"^revision::AtomicRevision::store$", r"store$", "Release", "revision publication"),
    (r"^revision::OptionalAtomicRevision::load$", r"load$", "Acquire", "tracked-struct lock word"),
    (r"^revision::OptionalAtomicRevision::swap$", r"swap$", "AcqRel", "tracked-struct write lock"),
    (r"^revision::OptionalAtomicRevision::compare_exchange$", r"compare_exchange$", "AcqRel", "tracked-struct read lock"),
    (r"^runtime::Runtime::load_cancellation_flag$", r"load$", "Acquire", "cancellation flag"),
    (r"^runtime::Runtime::cancellation_count$", r"load$", "Acquire", "cancellation epoch"),
    (r"^runtime::Runtime::set_cancellation_flag$", r"store$", "Release", "cancellation flag"),
    (r"^runtime::Runtime::reset_cancellation_flag$", r"store$", "Release", "cancellation flag"),
    (r"^accumulator::accumulated_map::AtomicInputAccumulatedValues::store$", r"store$", "Release", "accumulated-inputs flag"),
    (r"^accumulator::accumulated_map::AtomicInputAccumulatedValues::load$", r"load$", "Acquire", "accumulated-inputs flag"),
    (r"^cycle::AtomicIterationStamp::store_iteration$", r"store$", "Release", "iteration stamp publication"),
    (r"^table::memo::.*MemoTableWithTypes.*::insert$|^table::memo::MemoTable.*::insert", r"swap$", "AcqRel", "memo slot publication"),
    (r"^table::PageView::<'_, T>::allocate$|^table::Page::allocate|PageView.*allocate", r"store$", "Release", "page length publication after the slot write"),
]
ORD_RANK = {"Relaxed": 0, "Acquire": 1, "Release": 1, "AcqRel": 2, "SeqCst": 3}


def ordering_ok(found, minimum):
    if found == "SeqCst":
        return True
    if minimum == "AcqRel":
        return found == "AcqRel"
    if minimum in ("Acquire", "Release"):
        return found in (minimum, "AcqRel")
    return True


@ob("C16.2", ["C16", "C20", "C23", "C24"], "a Relaxed store that publishes data (or a Relaxed load that consumes it) lets another thread observe the flag/pointer/length without the data it guards", kind="ATOMIC")
def c16_2(cx):
    """Atomic publication table: the Ordering constant at each atomic operation of the listed publication functions is at least the stated one (Release for publishing stores, Acquire for consuming loads, AcqRel for swaps/CAS)."""
    n = 0
    seen = set()
    for b in cx.facts.all_bodies():
        for frx, oprx, minimum, why in ATOMIC_TABLE:
            if not re.search(frx, b.path):
                continue
            for s in b.calls(r"sync::atomic::Atomic|portable_atomic::Atomic|AtomicU\d+|AtomicBool|AtomicPtr|AtomicUsize"):
                callee = b.callee(s)
                if not re.search(oprx, callee):
                    continue
                ords = [a for a in cx.args(s) if re.match(r"^Ordering::", a)]
                if not ords:
                    continue
                n += 1
                seen.add(frx)
                found = ords[0].split("::")[1].split("{")[0]
                cx.check(ordering_ok(found, minimum), "%s: %s uses %s (needs >= %s: %s)" % (b.short, callee.split("::")[-1], found, minimum, why), s, {"orderings": ords}, key="atomic %s %s" % (b.path, callee.split("::")[-1]))
                if callee.endswith("compare_exchange") and len(ords) > 1:
                    f2 = ords[1].split("::")[1].split("{")[0]
                    cx.check(f2 in ("Acquire", "SeqCst"), "%s: compare_exchange failure ordering is %s (needs Acquire)" % (b.short, f2), s, key="atomic-fail %s" % b.path)
    cx.require(n >= 10, "expected >= 10 atomic publication sites, found %d (matched rows: %d)" % (n, len(seen)))
    missing = [frx for frx, _, _, _ in ATOMIC_TABLE if frx not in seen]
    for frx in missing:
        cx.note("atomic table row matched no site: " + frx)
    cx.require(len(missing) <= 4, "too many atomic table rows without a site: %r" % missing)


# ---------------------------------------------------------------------------------------------
# C21


@ob("C21.1", ["C21"], "overlapping bits (or a trigger that ignores DISABLED) cancel a fixpoint iteration half-way or make disabling clear the cancellation request", kind="CONST+FLOW")
def c21_1(cx):
    """CancellationToken: CANCELLED_MASK and DISABLED_MASK are disjoint single bits; cancel() = fetch_or(CANCELLED_MASK); should_trigger_local_cancellation() = (load == CANCELLED_MASK); set_cancellation_disabled uses fetch_or/fetch_and(!DISABLED_MASK) and returns the previous DISABLED bit; reset stores 0."""
    f = cx.facts
    c = f.const("zalsa_local::CancellationToken::CANCELLED_MASK")
    d = f.const("zalsa_local::CancellationToken::DISABLED_MASK")
    b = cx.fn(ZL + r"CancellationToken::cancel$")
    cx.require(c is not None and d is not None, "mask constants")
    cx.check(c & d == 0 and c != 0 and d != 0 and c & (c - 1) == 0 and d & (d - 1) == 0, "CANCELLED_MASK and DISABLED_MASK are distinct single bits", body=b, detail={"CANCELLED": c, "DISABLED": d}, key="masks")
    fo = cx.one_call(b, r"fetch_or$", "fetch_or in cancel")
    cx.flow(b, cx.arg(fo, 1), [r"CANCELLED_MASK"], [r"DISABLED_MASK"], "cancel sets exactly the CANCELLED bit", fo)
    cx.check(not b.calls(r"::store$|fetch_and$"), "cancel never clears bits", fo, key="cancel-only-or")
    s = cx.fn(ZL + r"CancellationToken::should_trigger_local_cancellation$")
    o = s.origin_local(0)
    cx.flow(s, o, [r"^\(.*::load\(.*\) Eq const:zalsa_local::CancellationToken::CANCELLED_MASK(=\d+)?\)$"], [r"BitAnd", r" Ne "], "the token fires only in the state `cancelled and not disabled`")
    sd = cx.fn(ZL + r"CancellationToken::set_cancellation_disabled$")
    for c_ in sd.calls(r"fetch_or$"):
        cx.flow(sd, cx.arg(c_, 1), [r"DISABLED_MASK"], [r"CANCELLED_MASK"], "disabling sets only the DISABLED bit", c_)
        cx.only_if(sd, c_, BoolIs(r"^\$2$", True), "fetch_or only when disabling")
    for c_ in sd.calls(r"fetch_and$"):
        cx.flow(sd, cx.arg(c_, 1), [r"^Not\(const:zalsa_local::CancellationToken::DISABLED_MASK"], [r"CANCELLED_MASK"], "enabling clears only the DISABLED bit", c_)
        cx.only_if(sd, c_, BoolIs(r"^\$2$", False), "fetch_and only when re-enabling")
    cx.require(len(sd.calls(r"fetch_or$")) == 1 and len(sd.calls(r"fetch_and$")) == 1, "set_cancellation_disabled: one fetch_or and one fetch_and")
    cx.flow(sd, sd.origin_local(0), [r"BitAnd const:zalsa_local::CancellationToken::DISABLED_MASK(=\d+)?\) Ne const:0\)$"], [r"CANCELLED_MASK"], "returns the previous DISABLED bit")
    r = cx.fn(ZL + r"CancellationToken::reset$")
    st = cx.one_call(r, r"::store$", "store in reset")
    cx.flow(r, cx.arg(st, 1), [r"^const:0$"], [], "reset clears the token", st)
    u = cx.fn(ZL + r"ZalsaLocal::uncancel$")
    cx.must_call(u, ZL + r"CancellationToken::reset$")
    zs = cx.fn(ZL + r"ZalsaLocal::should_trigger_local_cancellation$")
    cx.flow(zs, zs.origin_local(0), [r"^zalsa_local::CancellationToken::should_trigger_local_cancellation\(\$1\.cancelled\)$"], [r"^const:"], "the handle consults its own token")


@ob("C21.3", ["C21", "C12"], "a local cancellation that fires inside a fixpoint iteration abandons provisional memos of a cycle other handles may be waiting on", kind="GUARDTYPE+ORDER")
def c21_3(cx):
    """execute: for Fixpoint / FallbackImmediate the DisableLocalCancellationGuard is created before execute_maybe_iterate and dropped only after it (also on unwind); the Panic strategy does not disable cancellation."""
    e = cx.fn(r"^function::execute::<impl function::IngredientImpl<C>>::execute$")
    g = cx.one_call(e, r"DisableLocalCancellationGuard::<'a>::new$", "guard construction")
    it = cx.one_call(e, r"execute_maybe_iterate$", "execute_maybe_iterate")
    cx.order(g, it, "local cancellation is disabled before the iteration starts")
    cx.flow(e, cx.arg(g, 0), [r"^function::sync::ClaimGuard::<'me>::zalsa_local\(\$3\)$"], [], "the guard acts on this handle's token", g)
    drops = [d for d in e.drops(r"DisableLocalCancellationGuard")]
    cx.check(bool(drops) and all(not e.reaches(d, it) for d in drops), "the guard is not dropped before execute_maybe_iterate", it, key="guard-live")
    cx.check(unwind_reaches_drop_of(e, it, lambda t: "DisableLocalCancellationGuard" in t["ty"]), "an unwinding iteration restores the previous disabled bit", it, key="restore-on-unwind")
    cx.only_if(e, g, VariantIn(r"Configuration::CYCLE_STRATEGY", {"Fixpoint", "FallbackImmediate"}), "cancellation is disabled only for cycle-capable functions (plain functions stay cancellable)")


@ob("C21.5", ["C21"], "resetting the token from a nested attach (or never) either swallows a cancellation request mid-computation or leaves the handle cancelled forever", kind="ONLYIF+MUSTCALL")
def c21_5(cx):
    """DbGuard::drop (both attach variants) calls uncancel() only if this guard attached the database (state is Some); the outermost guard detaches; Storage::clone builds a fresh ZalsaLocal (own token); ZalsaLocal::new starts with a fresh token."""
    n = 0
    for i in cx.facts.impls_of(r"^std::ops::Drop$", r"DbGuard"):
        for name, path, kind in i["items"]:
            if name != "drop":
                continue
            n += 1
            b = cx.facts.body(path)
            u = cx.one_call(b, ZL + r"ZalsaLocal::uncancel$", "uncancel in DbGuard::drop")
            cx.only_if(b, u, VariantIn(r"^\$1\.state$", {"Some"}), "the token is reset only by the guard that attached the database")
            cx.skipped_only_if(b, u, [VariantIn(r"^\$1\.state$", {"None"}), VariantIn(r"Cell::<T>::replace\(", {"None"})], "the attaching guard always resets the token when it detaches")
            rp = cx.one_call(b, r"Cell::<T>::replace$", "database.replace")
            cx.order(rp, u, "the database is detached before the token is reset")
    cx.require(n == 2, "expected two DbGuard Drop impls, found %d" % n)
    at = cx.fn(r"^attach::Attached::attach$")
    g = cx.one_call(at, r"DbGuard::<'s>::new$", "DbGuard::new in attach")
    op = cx.one_call(at, r"^std::ops::FnOnce::call_once$", "op() in attach")
    cx.order(g, op, "the guard exists while the operation runs")
    cx.check(unwind_reaches_drop_of(at, op, lambda t: "DbGuard" in t["ty"]), "an unwinding operation drops the guard (token reset, database detached)", op, key="dbguard-on-unwind")
    sc = cx.fn(r"^<storage::Storage<Db> as std::clone::Clone>::clone$")
    cx.must_call(sc, ZL + r"ZalsaLocal::new$", "a cloned handle gets its own ZalsaLocal (own token)")
    zn = cx.fn(ZL + r"ZalsaLocal::new$")
    o = zn.origin_local(0)
    cx.flow(zn, o, [r"cancelled: <CancellationToken as std::default::Default>::default\(\)"], [r"cancelled: \$"], "a new ZalsaLocal starts with a fresh, uncancelled token")
    if cx.specimen is not None:
        w = [p for p in cx.specimen.find(r"^f_plain$")]
        cx.require(len(w) == 1, "generated wrapper f_plain")
        wb = cx.specimen.body(w[0])
        cx.must_call(wb, r"^salsa::attach$|salsa::plumbing::attach$|attach::attach$", "the generated function wrapper runs inside attach(db, ..)")


c21_5._needs_specimen = True
