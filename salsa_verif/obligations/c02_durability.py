"""C02 — durabilities never cause stale results; NEVER_CHANGE stays frozen."""
import re

from ..framework import ob, Inconclusive
from ..mirlib import Cmp, CallIs, VariantIn, BoolIs, OnlyIf

EXPLANATIONS = {
    "C02": "Decided: the durability bookkeeping that makes the shallow (durability) shortcut sound — "
    "lattice constants, report_tracked_write fills revisions[1..=d] with the current revision behind the "
    "NEVER_CHANGE assert, set_field reports the OLD durability before overwriting it and asserts not-frozen "
    "before any store, untracked reads drop to MIN, last_changed_revision indexes by the memo's own durability, "
    "synthetic_write reaches the same assert. Not decided: the behaviour over concrete write histories."
}

RT = r"^runtime::Runtime::"
NEVER = r"Durability::NEVER_CHANGE"


@ob("C02.1", ["C02", "C01", "C04"], "the shortcut compares per-durability revisions; a wrong order or LEN shifts every slot", kind="CONST")
def c02_1(cx):
    """Durability lattice constants: LOW<MEDIUM<HIGH<NEVER_CHANGE, MIN==LOW, MAX==NEVER_CHANGE, LEN==HIGH+1, derived Ord."""
    f = cx.facts
    vals = {n: f.const("durability::Durability::" + n) for n in ("LOW", "MEDIUM", "HIGH", "NEVER_CHANGE", "MIN", "MAX", "LEN")}
    cx.require(all(v is not None for v in vals.values()), "durability constants not evaluated: %r" % vals)
    b = cx.fn(r"^durability::Durability::index$")
    cx.check(vals["LOW"] < vals["MEDIUM"] < vals["HIGH"] < vals["NEVER_CHANGE"], "LOW < MEDIUM < HIGH < NEVER_CHANGE", body=b, detail=vals)
    cx.check(vals["MIN"] == vals["LOW"], "MIN == LOW", body=b, detail=vals)
    cx.check(vals["MIN"] == 0, "MIN.index() == 0 (slot 0 is the current revision)", body=b, detail=vals)
    cx.check(vals["MAX"] == vals["NEVER_CHANGE"], "MAX == NEVER_CHANGE", body=b, detail=vals)
    cx.check(vals["LEN"] == vals["HIGH"] + 1, "LEN == HIGH + 1", body=b, detail=vals)
    cx.check(f.is_derived(r"^std::cmp::PartialOrd$", r"^durability::Durability$") and f.is_derived(r"^std::cmp::Ord$", r"^durability::Durability$"),
             "Durability's PartialOrd/Ord are derived (order = discriminant order)", body=b)
    cx.check(f.is_derived(r"^std::cmp::PartialOrd$", r"^durability::DurabilityVal$") and f.is_derived(r"^std::cmp::PartialEq$", r"^durability::DurabilityVal$"),
             "DurabilityVal's PartialOrd/PartialEq are derived", body=b)
    # index() is the discriminant cast
    o = b.origin_local(0)
    cx.check(re.fullmatch(r"(cast\()?(discr\()?\$1\.0\)?\)?", o) is not None or o in ("$1.0", "cast($1.0)"), "Durability::index is the discriminant of the value", body=b, detail={"origin": o})
    # revisions array length
    adt = f.adts.get("runtime::Runtime")
    cx.require(adt is not None, "runtime::Runtime ADT missing")
    fld = dict((n, t) for n, t in adt["variants"][0]["fields"])
    cx.check(re.search(r"Durability::LEN|; 3\]", fld.get("revisions", "")) is not None, "Runtime.revisions has Durability::LEN slots", body=b, detail={"type": fld.get("revisions")})


@ob("C02.2", ["C02", "C01"], "an exclusive end leaves revisions[d] old: a memo of durability d passes last_changed<=verified_at although an input of durability d changed", kind="FLOW+ONLYIF")
def c02_2(cx):
    """report_tracked_write(d): assert d != NEVER_CHANGE dominates the write; fills a range covering [1, d.index()] of self.revisions with current_revision()."""
    b = cx.fn(RT + r"report_tracked_write$")
    never = Cmp(r"^\$2$", "!=", NEVER, desc="durability != NEVER_CHANGE")
    fills = b.calls(r"^core::slice::<impl \[T\]>::fill$")
    direct = [x for x in cx.stores(b) if x[1].startswith("$1.revisions")]
    if not fills:
        # no slice fill: a direct store into one slot is a positively smaller write than [1, d]
        cx.require(direct, "report_tracked_write neither fills a range nor stores into revisions")
        for s, po, vo in direct:
            single = re.search(r"^\$1\.revisions\[(durability::Durability::index\(\$2\)|const:\d+|.*min\(.*\))\]$", po) is not None
            cx.check(not single, "report_tracked_write must stamp every slot in [1, d.index()], not a single slot", s, {"store": po}, key="single-slot-store")
            cx.only_if(b, s, never, "the write is reached only if durability != NEVER_CHANGE")
        loops = b.back_edges()
        cx.require(bool(loops) or all(re.search(r"\[const:", x[1]) for x in direct), "report_tracked_write: unrecognised write shape")
        return
    fill = cx.one(fills, "slice::fill call in report_tracked_write")
    cx.only_if(b, fill, never, "the write is reached only if durability != NEVER_CHANGE")
    args = [b.origin_op(a, 0, None, fill) for a in fill.node()["args"]]
    cx.flow(b, args[0],
            accept=[r"^\$1\.revisions\[std::ops::RangeInclusive::<Idx>::new\(const:1, durability::Durability::index\(\$2\)\)\]$",
                    r"^\$1\.revisions\[RangeFrom\{start: const:1\}\]$", r"^\$1\.revisions\[RangeFull", r"^\$1\.revisions$"],
            refute=[r"^\$1\.revisions\[Range\{start: const:\d+, end: durability::Durability::index\(\$2\)\}\]$",
                    r"^\$1\.revisions\[std::ops::RangeInclusive::<Idx>::new\(const:([2-9]|\d\d+), ",
                    r"^\$1\.revisions\[RangeFrom\{start: const:([2-9]|\d\d+)\}\]$",
                    r"^\$1\.revisions\[RangeTo\{end: durability::Durability::index\(\$2\)\}\]$",
                    r"^\$1\.revisions\[std::ops::RangeInclusive::<Idx>::new\(durability::Durability::index\(\$2\), durability::Durability::index\(\$2\)\)\]$"],
            what="filled range covers revisions[1..=d.index()]", site=fill)
    cx.flow(b, args[1], accept=[r"^runtime::Runtime::current_revision\(\$1\)$", r"^\$1\.revisions\[const:0\]$"],
            refute=[r"^const:", r"revision::Revision::start", r"\.next\(", r"^\$1\.revisions\[const:[1-9]"],
            what="fill value is the current revision", site=fill)


@ob("C02.3", ["C02", "C01"], "reporting the new instead of the old durability misses HIGH->LOW writes: memos of durability HIGH that read the field stay shallow-valid", kind="FLOW+ORDER+ONLYIF")
def c02_3(cx):
    """set_field: NEVER_CHANGE assert dominates every store and the setter; report_tracked_write gets the OLD durability (loaded before the overwrite), skipped only if old == MIN; new = durability.unwrap_or(old); revisions[field_index] = current_revision."""
    b = cx.fn(r"^input::IngredientImpl::<C>::set_field$")
    cell = r"\.durabilities\[\$4\]$"
    frozen = Cmp(cell, "!=", NEVER, desc="durabilities[field_index] != NEVER_CHANGE")
    # all stores through the value pointer + setter call + report call
    stores = [s for s in b.all_sites() if not s.is_term() and s.node()["k"] == "assign" and s.node()["p"]["pj"] and "data_raw" in b.origin_place(s.node()["p"])]
    cx.sites(stores, 2, "stores into the input value in set_field")
    for s in stores:
        cx.only_if(b, s, frozen, "store %s only after the not-frozen assert" % short(b.origin_place(s.node()["p"])))
    setter = cx.one_call(b, r"^std::ops::FnOnce::call_once$", "setter call")
    cx.only_if(b, setter, frozen, "setter runs only after the not-frozen assert")
    rep = cx.one_call(b, RT + r"report_tracked_write$", "report_tracked_write call in set_field")
    a = b.origin_op(rep.node()["args"][1])
    cx.flow(b, a, accept=[r"^input::IngredientImpl::<C>::data_raw\(.*\)\.durabilities\[\$4\]$"],
            refute=[r"unwrap_or", r"^\$5", r"^const:", r"Durability::"],
            what="report_tracked_write receives the stored durability of this field", site=rep)
    dur_stores = [s for s in stores if re.search(cell, b.origin_place(s.node()["p"]))]
    cx.sites(dur_stores, 1, "store of the new durability")
    for s in dur_stores:
        cx.check(not b.reaches(s, rep), "durability is overwritten only after the old one was reported", s, {"store": repr(s), "report": repr(rep)}, key="old-before-new")
        v = b._origin_def(s, "assign", s.node(), 0, None, ())
        cx.flow(b, v, accept=[r"^std::option::Option::<T>::unwrap_or\(\$5, .*\.durabilities\[\$4\]\)$"], refute=[r"^const:", r"Durability::(MIN|LOW|MAX)"],
                what="new durability = durability.unwrap_or(old)", site=s)
    # skipped only if old == MIN: every path from entry to the setter that avoids the report passes an (old == MIN) edge
    eng = OnlyIf(cx.facts, b)
    is_min = Cmp(cell, "==", r"Durability::(MIN|LOW)", desc="old durability == MIN")
    edges = eng.establishing_edges(is_min)
    reach = b.reachable(0, "normal", cut_edges=edges, cut_blocks={rep.bb})
    cx.check(setter.bb not in reach or False, "report_tracked_write is skipped only if the old durability == MIN", rep,
             {"establishing_edges": sorted(map(str, edges))}, key="skip-only-if-min")
    rev_stores = [s for s in stores if re.search(r"\.revisions\[\$4\]$", b.origin_place(s.node()["p"]))]
    cx.sites(rev_stores, 1, "store of revisions[field_index]")
    for s in rev_stores:
        v = b._origin_def(s, "assign", s.node(), 0, None, ())
        cx.flow(b, v, accept=[r"^runtime::Runtime::current_revision\(\$2\)$"], refute=[r"^const:", r"Revision::start", r"last_changed"], what="revisions[field_index] := current revision", site=s)
    other = [s for s in stores if s not in dur_stores and s not in rev_stores]
    cx.check(not other, "set_field stores only to revisions[field_index] and durabilities[field_index]", other[0] if other else None,
             {"other": [b.origin_place(s.node()["p"]) for s in other]}, key="no-other-store", body=b)


def short(s):
    return s if len(s) < 70 else "…" + s[-60:]


@ob("C02.5", ["C02", "C04", "C01"], "a query that read untracked state but kept a high durability would be shallow-verified and never re-executed", kind="FLOW")
def c02_5(cx):
    """ActiveQuery::add_untracked_read: untracked_read = true, durability = Durability::MIN, changed_at = the revision argument."""
    b = cx.fn(r"^active_query::ActiveQuery::add_untracked_read$")
    want = {"untracked_read": ([r"^const:1$"], [r"^const:0$"]),
            "durability": ([r"Durability::(MIN|LOW)"], [r"Durability::(MAX|NEVER_CHANGE|HIGH|MEDIUM)", r"min\(", r"max\("]),
            "changed_at": ([r"^\$2$", r"::max\(\$1\.changed_at, \$2\)$", r"::max\(\$2, \$1\.changed_at\)$"], [r"^const:", r"Revision::start", r"::min\("])}
    seen = set()
    for s in b.all_sites():
        if s.is_term() or s.node()["k"] != "assign" or not s.node()["p"]["pj"]:
            continue
        pl = b.origin_place(s.node()["p"])
        for fld, (acc, ref) in want.items():
            if pl == "$1." + fld:
                seen.add(fld)
                cx.flow(b, b._origin_def(s, "assign", s.node(), 0, None, ()), acc, ref, "add_untracked_read sets %s" % fld, s)
    for fld in want:
        cx.check(fld in seen, "add_untracked_read stores self.%s" % fld, body=b, key="stores " + fld)


@ob("C02.7", ["C02", "C01"], "reading another durability's slot validates memos against the wrong change horizon", kind="FLOW")
def c02_7(cx):
    """Runtime::last_changed_revision(d) = revisions[d.index()] (out of range: Revision::start()); Zalsa::last_changed_revision forwards d; current_revision = revisions[0]."""
    b = cx.fn(RT + r"last_changed_revision$")
    get = cx.one_call(b, r"^core::slice::<impl \[T\]>::get$", "revisions.get(..)")
    a = [b.origin_op(x) for x in get.node()["args"]]
    cx.flow(b, a[0], [r"^\$1\.revisions$"], [], "indexes self.revisions", get)
    cx.flow(b, a[1], [r"^durability::Durability::index\(\$2\)$"], [r"^const:", r"Sub|Add"], "index is d.index()", get)
    z = cx.fn(r"^zalsa::Zalsa::last_changed_revision$")
    c = cx.one_call(z, RT + r"last_changed_revision$", "forwarding call")
    cx.flow(z, z.origin_op(c.node()["args"][1]), [r"^\$2$"], [r"^const:", r"Durability::"], "Zalsa::last_changed_revision forwards its durability", c)
    cr = cx.fn(RT + r"current_revision$")
    cx.flow(cr, cr.origin_local(0), [r"^\$1\.revisions\[const:0\]$"], [r"^\$1\.revisions\[const:[1-9]"], "current_revision() is revisions[0]")
    nr = cx.fn(RT + r"new_revision$")
    st = [s for s in nr.all_sites() if not s.is_term() and s.node()["k"] == "assign" and nr.origin_place(s.node()["p"]).startswith("$1.revisions")]
    cx.sites(st, 1, "store to revisions in new_revision")
    for s in st:
        cx.flow(nr, nr.origin_place(s.node()["p"]), [r"^\$1\.revisions\[const:0\]$"], [r"^\$1\.revisions\[const:[1-9]"], "new_revision bumps slot 0", s)
        cx.flow(nr, nr._origin_def(s, "assign", s.node(), 0, None, ()), [r"^revision::Revision::next\(runtime::Runtime::current_revision\(\$1\)\)$", r"^revision::Revision::next\(\$1\.revisions\[const:0\]\)$"],
                [r"^runtime::Runtime::current_revision\(\$1\)$", r"^const:"], "new revision = old.next()", s)


@ob("C02.8", ["C02"], "a NEVER_CHANGE synthetic write that does not panic would bump nothing yet claim a write", kind="MUSTCALL")
def c02_8(cx):
    """Database::synthetic_write: zalsa_mut -> new_revision happens before report_tracked_write(durability) (which holds the NEVER_CHANGE assert)."""
    b = cx.fn(r"^database::Database::synthetic_write$")
    nr = cx.one_call(b, r"^zalsa::Zalsa::new_revision$", "new_revision call")
    rp = cx.one_call(b, RT + r"report_tracked_write$", "report_tracked_write call")
    cx.order(nr, rp, "new_revision precedes report_tracked_write")
    cx.flow(b, b.origin_op(rp.node()["args"][1]), [r"^\$2$"], [r"^const:", r"Durability::"], "synthetic_write reports its durability argument", rp)
    cx.must_call(b, RT + r"report_tracked_write$")
