"""C22 — panics in user code leave the database consistent: guard types + unwind windows."""
import re

from ..framework import ob, Inconclusive
from ..mirlib import Cmp, CallIs, VariantIn, BoolIs, OnlyIf, Site

EXPLANATIONS = {
    "C22": "Decided: (guards) every scope guard's destructor releases/repairs on every path and every mem::forget of a guard is "
    "dominated by the explicit release; ActiveQuery::clear (the unwinding pop) resets every piece of per-query state "
    "unconditionally; (windows) inside each fragile window - tracked-struct write lock, tracked-struct deletion, stale-output "
    "reconciliation until the new memo is inserted, interned slot surgery (reuse and cold insert) - no call that may run user code "
    "(Configuration methods, user Hash/PartialEq, user closures, the event callback; effect closed over the crate call graph) occurs "
    "unless its unwind edge reaches the drop of a repair guard or the call is covered by a justified idiom (insert_unique after "
    "reserve on the same table); (values) every inserted memo carries a completed value or is the poison memo. Genuine defects found "
    "by this rule are listed in known_findings.json (fixed: F1, F3; known: F2 family). Not decided: post-panic results of concrete "
    "histories; user Drop implementations are not treated as user code.",
}

USER_BASE = [
    r"^(function|tracked_struct|interned|input|accumulator)::Configuration::(execute|cycle_initial|recover_from_cycle|values_equal|update_fields|untracked_fields|heap_size|serialize|deserialize|id_to_input)$",
    r"^zalsa::Zalsa::event(_cold)?$",
    r"^interned::HashEqLike::(eq|hash)$",
    r"^interned::Lookup::into_owned$",
    r"^std::hash::Hash::hash$",
]


def user_effects(cx):
    """Set of same-crate body paths that may run user code (transitively), plus a predicate for call sites."""
    facts = cx.facts
    cache = getattr(facts, "_user_cache", None)
    if cache is not None:
        return cache
    base_rx = [re.compile(r) for r in USER_BASE]

    def direct_user(site):
        t = site.node()
        f = t["fn"]
        name = f.get("def")
        if name is None:
            return False
        names = [name, f.get("resolved") or ""]
        if any(r.search(n) for r in base_rx for n in names if n):
            return True
        if name == "std::hash::BuildHasher::hash_one":
            aty = (t.get("atys") or ["", ""])[1]
            # hashing salsa's own ids is not user code
            return not re.search(r"^(&)?(id::Id|u64|usize|key::DatabaseKeyIndex)$", aty)
        if re.search(r"^std::ops::(FnOnce::call_once|FnMut::call_mut|Fn::call)$", name):
            st = f.get("self_ty", "")
            return st.startswith("impl Fn") and re.search(r"(interned|input|tracked_struct)\.rs$", site.body.file) is not None
        return False

    user = set()
    bodies = list(facts.all_bodies())
    calls = {}
    for b in bodies:
        cs = []
        for s in b.calls(None, "full"):
            cs.append(s)
        calls[b.path] = cs
        if any(direct_user(s) for s in cs):
            user.add(b.path)
    changed = True
    while changed:
        changed = False
        for b in bodies:
            if b.path in user:
                continue
            for s in calls[b.path]:
                f = s.node()["fn"]
                names = [n for n in (f.get("resolved"), f.get("def")) if n]
                hit = any(n in user for n in names)
                if not hit:
                    for a in s.node()["args"]:
                        o = b.origin_op(a, 0, None, s)
                        m = re.match(r"^closure:([^\[\]]+)\[", o)
                        if m and m.group(1) in user:
                            hit = True
                if hit:
                    user.add(b.path)
                    changed = True
                    break

    def site_user(site):
        if direct_user(site):
            return True
        f = site.node()["fn"]
        names = [n for n in (f.get("resolved"), f.get("def")) if n]
        if any(n in user for n in names):
            return True
        for a in site.node()["args"]:
            o = site.body.origin_op(a, 0, None, site)
            m = re.match(r"^closure:([^\[\]]+)\[", o)
            if m and m.group(1) in user:
                return True
            # a reference to a closure local
            m = re.search(r"closure:([^\[\]]+)\[", o)
            if m and m.group(1) in user and o.startswith("closure:"):
                return True
        return False

    facts._user_cache = (user, site_user)
    return facts._user_cache


def unwind_reaches_drop_of(body, site, drop_pred):
    """Does the unwind edge of the call at `site` lead (through cleanup blocks) to a Drop terminator whose
    dropped type satisfies drop_pred?"""
    u = site.node().get("u")
    if not isinstance(u, int):
        return False
    seen = set()
    stack = [u]
    while stack:
        b = stack.pop()
        if b in seen:
            continue
        seen.add(b)
        t = body.blocks[b]["term"]
        if t["k"] == "drop" and drop_pred(t):
            return True
        for s, _ in body.succs(b, "full"):
            stack.append(s)
    return False


def repair_types(cx, rx_calls):
    """ADT paths whose Drop impl calls something matching rx_calls."""
    out = set()
    for i in cx.facts.impls_of(r"^std::ops::Drop$"):
        for name, path, kind in i["items"]:
            if name == "drop":
                b = cx.facts.body(path)
                if b is not None and b.calls(rx_calls, "full"):
                    out.add(i["self_adt"] or i["self"])
    return out


def window_calls(body, open_site, close_sites):
    """Call sites strictly after open_site and from which a close site is still reachable (normal view), or all sites
    after open when close_sites is empty."""
    out = []
    for s in body.calls(None):
        if s == open_site or not body.reaches(open_site, s):
            continue
        if s in close_sites:
            continue
        if close_sites and not any(body.reaches(s, c) for c in close_sites):
            continue
        out.append(s)
    return out


def check_window(cx, body, wname, open_site, close_sites, repair_rx=None, exempt=None):
    user, site_user = user_effects(cx)
    rt = repair_types(cx, repair_rx) if repair_rx else set()
    n = 0
    for s in window_calls(body, open_site, close_sites):
        if not site_user(s):
            continue
        n += 1
        callee = body.callee(s)
        why = None
        if exempt:
            why = exempt(s)
        if why is None and rt:
            if unwind_reaches_drop_of(body, s, lambda t: (t.get("adt") in rt)):
                why = "unwind edge reaches the repair guard's Drop"
        cx.check(why is not None, "%s: user code may unwind here (%s) - %s" % (wname, callee.split("::")[-1], why or "NO repair guard on the unwind path"), s, {"callee": callee},
                 key="%s %s" % (wname, callee))
    return n


TS = r"^tracked_struct::IngredientImpl::<C>::"
IN = r"^interned::IngredientImpl::<C>::"


@ob("C22.2", ["C22"], "user code that unwinds inside a window in which salsa's data structures are temporarily inconsistent leaves them inconsistent for every later request", kind="WINDOW")
def c22_2(cx):
    """W1 tracked-struct write lock (update: swap(None) .. swap(Some)), W2 tracked-struct deletion (delete_entity: swap(None) .. free_list.push), W3 stale-output reconciliation (execute: diff_outputs .. insert_memo; specify likewise), W3i inside diff_outputs (after the first report_stale_output), W4 interned slot surgery (reuse path), W4' interned cold insert (LRU link before key-map insert): no USER-effect call without a repair guard on its unwind edge."""
    # W1
    u = cx.fn(TS + r"update$")
    sws = cx.some_calls(u, r"^revision::OptionalAtomicRevision::swap$", 2, "updated_at swaps in update")
    lock = [s for s in sws if cx.arg(s, 1) == "Option::None{}"]
    unlock = [s for s in sws if cx.arg(s, 1).startswith("Option::Some")]
    cx.require(len(lock) == 1 and len(unlock) >= 1, "W1: lock/unlock swaps")
    n = check_window(cx, u, "W1", lock[0], unlock, repair_rx=r"^revision::OptionalAtomicRevision::(swap|store)$")
    cx.require(n >= 2, "W1: expected >= 2 user-effect calls (update_fields, clear_memos) inside the window, found %d" % n)
    # W2
    d = cx.fn(TS + r"delete_entity$")
    sw = cx.one_call(d, r"^revision::OptionalAtomicRevision::swap$", "swap in delete_entity")
    fp = cx.one_call(d, r"SegQueue::<T>::push$", "free_list.push")
    n = check_window(cx, d, "W2", sw, [fp], repair_rx=r"SegQueue::<T>::push$|OptionalAtomicRevision::(swap|store)$")
    cx.require(n >= 1, "W2: expected the clear_memos call inside the window")
    # W3
    e = cx.fn(r"^function::execute::<impl function::IngredientImpl<C>>::execute$")
    do = cx.one_call(e, r"diff_outputs::<impl function::memo::MemoHeader>::diff_outputs$", "diff_outputs in execute")
    ins = cx.one_call(e, r"^function::IngredientImpl::<C>::insert_memo$", "insert_memo in execute")
    check_window(cx, e, "W3", do, [ins])
    cx.check(True, "W3: window diff_outputs .. insert_memo in execute scanned", do, key="W3 scanned")
    # W3i: inside diff_outputs, user code after the first destructive report
    df = cx.fn(r"^function::diff_outputs::<impl function::memo::MemoHeader>::diff_outputs$")
    reps = cx.some_calls(df, r"^function::diff_outputs::report_stale_output$", 2, "report_stale_output calls")
    user, site_user = user_effects(cx)
    for r in reps:
        # a report that can be followed by another report (loop or later call): the later one may unwind after the first deleted something
        later = [x for x in reps if df.reaches(r, x)]
        cx.check(not later or not site_user(r), "W3i: a stale output is discarded, then user code (event callback / nested discard) may unwind before the new memo replaces the old one", r,
                 {"followed_by": [repr(x) for x in later][:3]}, key="W3i report_stale_output")
    # W4 interned reuse
    b = cx.fn(IN + r"intern_id$")
    rems = cx.some_calls(b, r"CursorMut::<'a, A>::remove$", 3, "LRU unlink sites")
    rep = cx.one_call(b, r"^std::mem::replace$", "fields replace")
    first = [r for r in rems if b.reaches(r, rep)]
    cx.require(len(first) == 1, "W4: the LRU unlink that opens the reuse window")
    pf = [p for p in b.calls(r"LinkedList::<A>::push_front$") if b.reaches(rep, p)]
    iu = cx.one_call(b, r"^hashbrown::HashTable::<T, A>::insert_unique$", "insert_unique in reuse path")
    res = cx.one_call(b, r"^hashbrown::HashTable::<T, A>::reserve$", "reserve before slot surgery")

    # the window opens at the FIRST mutation of the shard for this reuse: the LRU unlink or the removal of the stale
    # key-map entry, whichever comes first
    kmr = [r for r in b.calls(r"OccupiedEntry::<'a, T, A>::remove$") if b.reaches(r, rep)]
    opens = first + kmr
    start = [m for m in opens if all(m == o or b.reaches(m, o) for o in opens)]
    cx.require(len(start) == 1, "W4: a unique first mutation of the reuse path")
    first = start

    def exempt(s):
        if s == iu and b.site_dominates(res, first[0]) and cx.arg(res, 0) == cx.arg(iu, 0):
            # no insertion into the table between reserve and insert_unique
            between = [x for x in b.calls(r"HashTable::<T, A>::(insert_unique|entry)$") if x != iu and b.reaches(res, x) and b.reaches(x, iu)]
            if not between:
                return "insert_unique cannot rehash: capacity reserved on the same table before the slot was touched"
        return None

    check_window(cx, b, "W4", first[0], pf + [iu], exempt=exempt)
    cx.order(res, first[0], "W4: capacity is reserved (user hashing may run) before the slot is unlinked or its key-map entry removed")
    asm = [s for s in b.calls(r"^std::ops::FnOnce::call_once$") if b.reaches(s, rep)]
    for s in asm:
        cx.check(not b.reaches(first[0], s), "W4: `assemble` (user code) runs before the slot is touched", s, key="W4 assemble-first")
    # W4' cold insert
    inner = cx.fn(IN + r"insert_value::inner$")
    p = cx.one_call(inner, r"LinkedList::<A>::push_front$", "push_front in insert_value::inner")
    ie = cx.one_call(inner, r"^interned::insert_unique_erased$", "insert_unique_erased")
    cx.check(not inner.reaches(p, ie), "W4': the key-map insert (which may run the user's Hash while growing) happens before the value is linked into the LRU", p,
             {"callee": "interned::insert_unique_erased"}, key="W4' interned::insert_unique_erased")


@ob("C22.1", ["C22", "C14", "C15", "C21"], also=["C06", "C11"], nec="a guard whose destructor does not release (or that is forgotten without an explicit release) leaks a stack frame, a claim, a flag or a provisional memo when user code unwinds", kind="GUARDTYPE")
def c22_1(cx):
    """Guard table: ActiveQueryGuard (Drop -> QueryStack::pop -> ActiveQuery::clear resets everything unconditionally; forget only after pop_into_revisions / pop_detached_completion), DisableLocalCancellationGuard (Drop restores was_disabled), PoisonProvisionalIfPanicking (Drop inserts the poison memo when panicking; constructed before the iteration loop), TableDropGuard x2 (Drop drops the remaining memos; forget only after take_memos returned), ClaimGuard (C19.5)."""
    f = cx.facts
    # ActiveQueryGuard
    d = f.drop_impl(r"^zalsa_local::ActiveQueryGuard<'_>$")
    cx.require(d is not None, "Drop for ActiveQueryGuard")
    cb = cx.closure_passed_to(d, r"with_query_stack_unchecked_mut$")
    cx.must_call(cb, r"^active_query::QueryStack::pop$", "dropping the guard pops the frame")
    cx.must_call(d, r"with_query_stack_unchecked_mut$")
    pop = cx.fn(r"^active_query::QueryStack::pop$")
    cx.must_call(pop, r"^active_query::ActiveQuery::clear$", "the unwinding pop clears the frame")
    cx.must_call(pop, r"^active_query::QueryStack::pop_active_query$")
    pa = cx.fn(r"^active_query::QueryStack::pop_active_query$")
    dec = [x for x in cx.stores(pa, r"^\$1\.len$")]
    cx.check(len(dec) == 1 and re.search(r"\(\$1\.len Sub(WithOverflow)? const:1\)", dec[0][2]) is not None, "pop_active_query decrements the stack length", dec[0][0] if dec else None, {"stores": [x[2] for x in dec]}, key="len-dec", body=pa)
    clr = cx.fn(r"^active_query::ActiveQuery::clear$")
    for rx, what in ((r"IndexSet::<T, S>::clear$", "input_outputs.clear()"), (r"^tracked_struct::DisambiguatorMap::clear$", "disambiguator_map.clear()"), (r"^tracked_struct::IdentityMap::clear$", "tracked_struct_ids.clear()")):
        if "input_outputs" in what:
            cx.must_call(clr, rx, "ActiveQuery::clear always runs " + what)
        else:
            # a frame reused after an unwind with stale disambiguators / identities hands out different ids (C06)
            with cx.only("C22", "C14", "C15", "C21", "C06"):
                cx.must_call(clr, rx, "ActiveQuery::clear always runs " + what)
    if "accumulator" in f.features:
        with cx.only("C22", "C14", "C15", "C21", "C11"):
            # values pushed by a query that then unwound must not leak into the next query using the pooled frame (C11)
            cx.must_call(clr, r"AccumulatedMap::clear$", "ActiveQuery::clear always clears the accumulated values")
    ch = [x for x in cx.stores(clr) if x[1].endswith(".cycle_heads")]
    rets = clr.return_blocks()
    ok = bool(ch) and all(r not in clr.reachable(0, "normal", cut_blocks={x[0].bb for x in ch}) or any(x[0].bb == r for x in ch) for r in rets)
    cx.check(ok, "ActiveQuery::clear always resets cycle_heads", ch[0][0] if ch else None, key="clear-cycle-heads", body=clr)
    # forget sites
    nf = 0
    for s in f.call_sites_of(r"^std::mem::forget$"):
        ty = (s.node().get("atys") or [""])[0]
        b = s.body
        if "ActiveQueryGuard" in ty:
            nf += 1
            pops = b.calls(r"with_query_stack_unchecked_mut$")
            ok = any(b.site_dominates(p, s) for p in pops)
            cx.check(ok, "forget(ActiveQueryGuard) only after the frame was popped explicitly", s, key="forget-aqg " + b.path)
            for p in pops:
                c = cx.closure_passed_to(b, r"with_query_stack_unchecked_mut$")
                cx.check(bool(c.calls(r"^active_query::QueryStack::(pop_into_revisions|pop_detached_completion)$")), "the explicit release pops the frame", p, key="explicit-pop " + b.path)
        elif "TableDropGuard" in ty:
            nf += 1
            tk = b.calls(r"take_memos$")
            cx.check(any(b.site_dominates(t, s) for t in tk), "forget(TableDropGuard) only after take_memos returned", s, key="forget-tdg " + b.path)
    cx.require(nf >= 4, "expected >= 4 forget sites of ActiveQueryGuard/TableDropGuard, found %d" % nf)
    # DisableLocalCancellationGuard
    d = f.drop_impl(r"^function::execute::DisableLocalCancellationGuard<'_>$")
    cx.require(d is not None, "Drop for DisableLocalCancellationGuard")
    c = cx.one_call(d, r"ZalsaLocal::set_cancellation_disabled$", "restore in Drop")
    cx.must_call(d, r"ZalsaLocal::set_cancellation_disabled$")
    cx.flow(d, cx.arg(c, 1), [r"^\$1\.was_disabled$"], [r"^const:"], "Drop restores the previous disabled bit", c)
    n = cx.fn(r"^function::execute::DisableLocalCancellationGuard::<'a>::new$")
    o = n.origin_local(0)
    cx.flow(n, o, [r"was_disabled: zalsa_local::ZalsaLocal::set_cancellation_disabled\(\$1, const:1\)"], [r"was_disabled: const:"], "new() disables and remembers the previous bit")
    # PoisonProvisionalIfPanicking
    d = f.drop_impl(r"^function::execute::PoisonProvisionalIfPanicking<'_, C>$")
    cx.require(d is not None, "Drop for PoisonProvisionalIfPanicking")
    ins = cx.one_call(d, r"^function::IngredientImpl::<C>::insert_memo$", "poison insert")
    cx.skipped_only_if(d, ins, CallIs(r"^std::thread::panicking$", False), "the poison memo is inserted whenever the thread is unwinding")
    mi = cx.fn(r"^function::execute::<impl function::IngredientImpl<C>>::execute_maybe_iterate$")
    g = cx.one_call(mi, r"PoisonProvisionalIfPanicking::<'a, C>::new$", "poison guard construction")
    for q in cx.some_calls(mi, r"execute_query$", 1, "execute_query in the loop"):
        cx.order(g, q, "the poison guard exists before any iteration runs")
        cx.check(unwind_reaches_drop_of(mi, q, lambda t: "PoisonProvisionalIfPanicking" in t["ty"]), "an unwinding iteration drops the poison guard", q, key="poison-on-unwind")
    # TableDropGuard Drop impls
    nt = 0
    for i in f.impls_of(r"^std::ops::Drop$", r"TableDropGuard"):
        for name, path, kind in i["items"]:
            if name == "drop":
                nt += 1
                b = f.body(path)
                cx.must_call(b, r"MemoTableWithTypesMut::<'_>::drop$|MemoTableWithTypesMut::<'a>::drop$", "TableDropGuard::drop frees the remaining memos")
    cx.require(nt >= 2, "expected 2 TableDropGuard Drop impls, found %d" % nt)
    # the user body runs with the frame guard live: unwinding from C::execute pops the frame
    q = cx.fn(r"^function::execute::<impl function::IngredientImpl<C>>::execute_query$")
    ce = cx.one_call(q, r"^function::Configuration::execute$", "C::execute")
    cx.check(unwind_reaches_drop_of(q, ce, lambda t: "ActiveQueryGuard" in t["ty"]), "a panicking body drops the ActiveQueryGuard (frame popped)", ce, key="frame-on-unwind")
    ex = cx.fn(r"^function::execute::<impl function::IngredientImpl<C>>::execute$")
    for s in ex.calls(r"execute_query$|execute_maybe_iterate$"):
        cx.check(unwind_reaches_drop_of(ex, s, lambda t: "ClaimGuard" in t["ty"]), "a panicking execution drops the ClaimGuard (claim released with Panicked/Cancelled)", s, key="claim-on-unwind " + ex.callee(s).split("::")[-1])


@ob("C22.4", ["C22"], also=["C20"], nec="an event callback that unwinds after the state it announces was already changed (or outside the guard that repairs it) leaves a half-applied transition", kind="ORDER")
def c22_4(cx):
    """mark_as_verified: the event precedes verified_at.store; delete_entity: the DidDiscard event precedes the lock-word swap; cancel_others: the event is raised inside the CancellationFlagGuard."""
    m = cx.fn(r"^function::memo::MemoHeader::mark_as_verified$")
    ev = cx.one_call(m, r"^zalsa::Zalsa::event$", "event in mark_as_verified")
    st = cx.one_call(m, r"^revision::AtomicRevision::store$", "verified_at.store")
    cx.order(ev, st, "DidValidateMemoizedValue is raised before the memo is stamped verified")
    d = cx.fn(TS + r"delete_entity$")
    evs = cx.some_calls(d, r"^zalsa::Zalsa::event$", 1, "event in delete_entity")
    sw = cx.one_call(d, r"^revision::OptionalAtomicRevision::swap$", "swap in delete_entity")
    for e in evs:
        cx.check(not d.reaches(sw, e), "DidDiscard is raised before the struct is tombstoned", e, key="discard-event-first")
    cx._only = {"C22", "C20"}
    c = cx.fn(r"^storage::Storage::<Db>::cancel_others$")
    evs = cx.some_calls(c, r"^zalsa::Zalsa::event$", 1, "event in cancel_others")
    g = cx.one_call(c, r"CancellationFlagGuard::<'_>::new$|CancellationFlagGuard.*::new$", "CancellationFlagGuard::new")
    for e in evs:
        cx.order(g, e, "the cancellation event is raised inside the flag guard")
        cx.check(unwind_reaches_drop_of(c, e, lambda t: "CancellationFlagGuard" in t["ty"]), "an unwinding event callback drops the flag guard (flag reset)", e, key="flag-on-unwind")
    gd = cx.facts.drop_impl(r"CancellationFlagGuard")
    cx.require(gd is not None, "Drop for CancellationFlagGuard")
    cx.must_call(gd, r"^runtime::Runtime::reset_cancellation_flag$", "the flag guard resets the flag")


@ob("C22.5", ["C22", "C07", "C01"], "an unwind guard must put back the state that was there: releasing the tracked-struct write lock with the CURRENT revision stamps a half-updated struct as 'already updated in this revision', so the retry returns early and serves last revision's fields as if they were fresh", kind="FLOW (repair guard restores the observed state)")
def c22_5(cx):
    """tracked_struct::update: the UnlockOnUnwind guard is built from (&updated_at of this slot, the value loaded from updated_at BEFORE the lock word was swapped to None); its Drop swaps that value back only when thread::panicking(); it is created after the lock was taken and before the first user call."""
    u = cx.fn(r"^tracked_struct::IngredientImpl::<C>::update$")
    ag = cx.one(u.aggregates(r"update::UnlockOnUnwind$"), "UnlockOnUnwind aggregate in update")
    o = u._origin_def(ag, "assign", ag.node(), 0, None, ())
    ld = [s for s in u.calls(r"^revision::OptionalAtomicRevision::load$")]
    sw = [s for s in u.calls(r"^revision::OptionalAtomicRevision::swap$")]
    cx.sites(sw, 2, "lock-word swaps in update")
    take = [s for s in sw if cx.arg(s, 1).startswith("Option::None")]
    cx.sites(take, 1, "the swap(None) that takes the write lock")
    cx.flow(u, o, [r"\w+: revision::OptionalAtomicRevision::load\(.*\.updated_at\)\}$"], [r"\w+: Option::Some\{0: zalsa::Zalsa::current_revision", r"\w+: Option::None\{\}\}$"], "the guard remembers the revision observed before the lock was taken", ag)
    cx.flow(u, o, [r"^UnlockOnUnwind\{\w+: .*\.updated_at, \w+:"], [], "and points at this slot's lock word", ag)
    for l in ld:
        if cx.arg(l, 0) and "updated_at" in cx.arg(l, 0):
            cx.check(not u.reaches(take[0], l), "the remembered revision is loaded before the lock word is overwritten", l, key="load-before-take")
    cx.check(u.reaches(take[0], ag), "the guard is armed once the lock is held", ag, key="armed-after-take")
    d = cx.facts.drop_impl(r"update::UnlockOnUnwind")
    cx.require(d is not None, "Drop for UnlockOnUnwind")
    s2 = cx.one_call(d, r"^revision::OptionalAtomicRevision::swap$", "swap in UnlockOnUnwind::drop")
    cx.flow(d, cx.arg(s2, 1), [r"^\$1\.\w+$"], [r"^Option::", r"current_revision"], "the guard restores exactly what it remembered", s2)
    cx.flow(d, cx.arg(s2, 0), [r"^\$1\.\w+$"], [], "into the lock word it guards", s2)
    cx.only_if(d, s2, CallIs(r"thread::panicking$", True, desc="thread::panicking()"), "the lock word is touched by the guard only while unwinding")
