"""C12 fixpoint cycles, C13 fallback cycles, C15 bounded iteration."""
import re

from ..framework import ob, Inconclusive
from ..mirlib import Cmp, CallIs, VariantIn, BoolIs, OnlyIf, Site
from .c01_reuse import ret_cases, value_defs
from .c01_execute import closure_origin

EXPLANATIONS = {
    "C12": "Decided: a cycle starts from cycle_initial stamped provisional (shared C20.4); the head's next value is "
    "recover_from_cycle(last provisional, C::execute result) and convergence is values_equal(new, last provisional); a head is "
    "finalised (verified_final = true) only if value AND durability AND changed_at AND untracked-ness are unchanged, there is no "
    "outer cycle, and every other head's memo has converged; otherwise the iteration count is advanced and the loop continues "
    "seeded from the memo just inserted; provisional memos are reused only if all their heads are final with the same verified_at and "
    "iteration, or within the same iteration of the same revision; cycle memos are never backdated (shared C01.8) and provisional "
    "results read as Changed (shared C01.4e/C01.6). The cycle seed is Memo::new(Some(cycle_initial(db,id,input)), current_revision, fixpoint_initial(key, iteration)) with a bottom stamp (Revision::start, Durability::MAX, no edges, head = itself, verified_final=false); the stored origin of a cycle query is the flattening of its edges: every edge visited, leaf ingredients record themselves, functions delegate with their own key and strategy, final callees recorded by key, provisional callees expanded (copied for cycle-handling callees, recursed for plain ones), early exits only for a missing memo or an already visited key. Not decided: that the limit is the LEAST fixpoint, monotonicity, dependency "
    "flattening correctness over histories.",
    "C13": "Decided: for CycleRecoveryStrategy::FallbackImmediate the value that leaves execute_maybe_iterate for a cycle participant "
    "and for a cycle head is C::cycle_initial(..) (the declared fallback), never the body's result, and value convergence is "
    "constantly true; functions that complete outside any cycle keep the body's value; cycle_result => FallbackImmediate in the "
    "generated Configuration (C13.3, specimen). Generated glue forwards (db,id,input) / (db,cycle,last,value,input) positionally and keeps the new value without a cycle_fn; a new cycle met while validating an old memo is reported Changed for both recovering strategies; the release mode chosen at completion is not overridden in execute_maybe_iterate. KNOWN FINDING F5: a provisional participant of an earlier revision is re-executed alone (deep_verify_memo). Not decided: which functions participate for a concrete call graph.",
    "C15": "Decided: MAX_ITERATIONS == 200 (< u8::MAX); increment_iteration yields Some only while the iteration byte stays <= "
    "MAX_ITERATIONS; every caller of increment_iteration turns None into a panic; the only back edge of the iteration loop is "
    "dominated by taking the Err((_, new_iteration)) of try_complete_cycle_head whose iteration is max_iteration.increment_iteration(); "
    "the poison guard exists before the loop (C22.1) and readers of a poisoned memo of the current revision/epoch propagate the panic. "
    "Not decided: usability in later revisions for concrete programs.",
}

EX = r"^function::execute::"
EXI = r"^function::execute::<impl function::IngredientImpl<C>>::"
EXE = r"^function::execute::"
MH = r"^function::maybe_changed_after::<impl function::memo::MemoHeader>::"


@ob("C12.2", ["C12", "C18"], "finalising a head whose value or metadata still changes (or while an inner head has not converged) freezes a non-fixpoint as the result", kind="ONLYIF+FLOW")
def c12_2(cx):
    """execute_maybe_iterate: new_value = C::recover_from_cycle(db, &cycle, last_provisional_value, C::execute result, input); value_converged = C::values_equal(&new_value, last_provisional_value); try_complete_cycle_head: verified_final := true only if value_converged and durability/changed_at/untracked-ness equal and outer_cycle is None and every other head's memo cycle_converged(); nested heads record this_converged; not converged => Err with max_iteration.increment_iteration()."""
    m = cx.fn(EXI + r"execute_maybe_iterate$")
    rc = cx.one_call(m, r"^function::Configuration::recover_from_cycle$", "recover_from_cycle")
    ve = cx.one_call(m, r"^function::Configuration::values_equal$", "values_equal")
    a = cx.args(rc)
    cx.flow(m, a[2], [r"Option::<T>::expect\(function::memo::Memo::<C>::value\("], [], "recover_from_cycle sees the last provisional value", rc)
    cx.flow(m, a[3], [r"execute_query\(.*\)\.0"], [r"cycle_initial"], "recover_from_cycle sees this iteration's body result", rc)
    a = cx.args(ve)
    cx.flow(m, a[0], [r"recover_from_cycle\("], [r"^.*execute_query\(.*\)\.0$"], "convergence compares the RECOVERED value", ve)
    cx.flow(m, a[1], [r"Option::<T>::expect\(function::memo::Memo::<C>::value\("], [], "against the last provisional value", ve)
    tc = cx.one_call(m, EX + r"try_complete_cycle_head$", "try_complete_cycle_head call")
    a = cx.args(tc)
    cx.flow(m, a[7], [r"^phi\{.*values_equal\(.* \| const:1\}$|^phi\{const:1 \| .*values_equal\(", r"values_equal\("], [r"^const:1$"], "value_converged is the comparison (or `true` for FallbackImmediate)", tc)
    cx.flow(m, a[3], [r"\.header\.revisions$"], [], "metadata convergence is judged against the last provisional memo's revisions", tc)
    h = cx.fn(EX + r"try_complete_cycle_head$")
    st = [x for x in cx.stores(h) if re.search(r"verified_final", x[1]) or x[2] in ("const:1", "const:0") and "get_mut" in x[1]]
    fin = [x for x in st if x[2] == "const:1"]
    cx.sites(fin, 1, "store verified_final := true")
    conv = BoolIs(r"^\$8$", True, desc="value_converged")
    dur = Cmp(r"^\$4\.durability$", "==", r"complete_cycle_query\(.*\)\.revisions\.durability$", desc="durability unchanged")
    chg = Cmp(r"^\$4\.changed_at$", "==", r"complete_cycle_query\(.*\)\.revisions\.changed_at$", desc="changed_at unchanged")
    unt = Cmp(r"is_derived_untracked\(\$4\)$", "==", r"is_derived_untracked\(.*complete_cycle_query", desc="untracked-ness unchanged")
    outer = VariantIn(r"^\$5$", {"None"}, desc="no outer cycle")
    allc = CallIs(r"^std::iter::Iterator::all$", True, desc="every other head has converged")
    for s, po, vo in fin:
        for l in (conv, dur, chg, unt, outer, allc):
            cx.only_if(h, s, l, "the head is finalised only if %r" % l)
    cb = cx.closure_passed_to(h, r"^std::iter::Iterator::all$")
    inner = [k for _, k in cx.facts.closures_of(cb)]
    cx.check(bool(cb.calls(r"cycle_converged$")) or any(k.calls(r"cycle_converged$") for k in inner), "inner heads are judged by their recorded cycle_converged flag", body=cb, key="inner-converged")
    cx.some_calls(cb, r"^std::option::Option::<T>::is_none_or$", 1, "a head without a memo counts as converged (is_none_or)")
    # nested: set_cycle_converged(this_converged)
    sc = cx.one_call(h, r"QueryRevisions::set_cycle_converged$", "set_cycle_converged (nested head)")
    o = cx.arg(sc, 1)
    cx.check(all(k in o for k in ("$8",)) or "phi" in o, "a nested head records value AND metadata convergence", sc, {"origin": o[:200]}, key="nested-records")
    cx.only_if(h, sc, VariantIn(r"^\$5$", {"Some"}), "only nested heads defer to the outer cycle")
    # Err => iteration advanced
    for s in cx.ret_sites(h, "Err"):
        o = h._origin_def(s, "assign", s.node(), 0, None, ())
        cx.flow(h, o, [r"unwrap_or_else\(cycle::IterationStamp::increment_iteration\(\$7\)"], [r"1: \$6\}", r"1: \$7\}"], "another iteration carries max_iteration.increment_iteration()", s)
    # the iteration loop continues from the memo just inserted
    ins = cx.one_call(m, r"^function::IngredientImpl::<C>::insert_memo$", "provisional insert in the loop")
    eq = cx.some_calls(m, r"execute_query$", 1, "execute_query")[0]
    seed = cx.arg(eq, 3)
    cx.check("Option::<T>::or(" in seed and "Option::<T>::map(" in seed, "each iteration is seeded from last_provisional_memo_opt.or(opt_old_memo)", eq, {"origin": seed[:200]}, key="seed-or")
    # last_provisional_memo_opt := Some(new_memo) after every provisional insert
    asg = [s_ for s_ in m.aggregates(r"^std::option::Option$", "Some") if re.search(r"^Option::Some\{0: function::IngredientImpl::<C>::insert_memo\(", m._origin_def(s_, "assign", s_.node(), 0, None, ()))]
    cx.check(len(asg) >= 1 and all(m.reaches(ins, s_) for s_ in asg), "the memo just inserted becomes the last provisional memo for the next iteration", ins, key="last-provisional-updated")
    mm = cx.arg(ins, 3)
    cx.flow(m, mm, [r"^function::memo::Memo::<C>::new\(Option::Some\{0: phi\{.*(recover_from_cycle|cycle_initial)\(.*\}\}, zalsa::Zalsa::current_revision\("], [r"Option::None"], "each iteration's provisional memo holds the recovered value, stamped with the current revision", ins)
    sa = cx.fn(r"^function::execute::<impl function::memo::MemoHeader>::seed_active_query$")
    si = cx.one_call(sa, r"ActiveQueryGuard::<'me>::seed_iteration$", "seed_iteration")
    cx.only_if(sa, si, CallIs(r"MemoHeader::may_be_provisional$", True, [r"^\$1$"]), "iteration state is carried over only from a provisional memo")
    cx.only_if(sa, si, Cmp(r"AtomicRevision::load\(\$1\.verified_at\)$", "==", r"current_revision\(\$2\)$"), "iteration state is carried over only within the current revision")


@ob("C12.3", ["C12", "C18", "C20", "C13", "C22", "C14"], "reusing a provisional memo whose cycle heads are not final (or were finalised in another iteration/revision) returns an intermediate value as the result", kind="ONLYIF")
def c12_3(cx):
    """validate_provisional returns true only if every cycle head is Final with verified_at == the memo's verified_at and iteration == the recorded iteration (and then marks verified_final); validate_same_iteration returns true only if memo verified_at == current revision and every head is claimed as Cycle with the same verified_at and iteration (single own head: the head is on this thread's stack)."""
    v = cx.fn(r"^function::maybe_changed_after::validate_provisional$")
    st = r"provisional_status|and_then\("
    for site, kind, node in value_defs(v, 0):
        o = v._origin_def(site, kind, node, 0, None, ())
        if o == "const:1":
            cx.check(bool(v.calls(r"^std::iter::Iterator::next$")) , "validate_provisional examines every cycle head", site, key="iterates-heads")
            # `true` only after the loop is exhausted: no early true
            cx.only_if(v, site, VariantIn(r"Iterator>::next\(", {"None"}, desc="all heads examined"), "true only after every head passed")
    finals = [s for s in v.all_sites() if not s.is_term() and False]
    # every path that continues the loop after a head passed the Final arm with both equalities
    falses = [site for site, kind, node in value_defs(v, 0) if v._origin_def(site, kind, node, 0, None, ()) == "const:0"]
    cx.sites(falses, 3, "`return false` sites in validate_provisional")
    eng = OnlyIf(cx.facts, v)
    nx = cx.one_call(v, r"^std::iter::Iterator::next$", "next head")
    # every head counts - also the memo's own key: a placeholder whose only head is itself must not validate vacuously
    cx.flow(v, cx.arg(nx, 0), [r"^<CycleHeads as std::iter::IntoIterator>::into_iter\(\$5\)$"], [r"iter_not_eq|filter|skip|take"], "validate_provisional examines ALL cycle heads of the memo (including itself)", nx)
    va = Cmp(r"@Final\.verified_at$|Final.*verified_at", "==", r"^\$4$", desc="head.verified_at == memo.verified_at")
    it = Cmp(r"@Final\.iteration$|Final.*iteration", "==", r"AtomicIterationStamp::load\(", desc="head iteration == recorded iteration")
    fin = VariantIn(r"and_then\(.*\)@Some\.0$|provisional_status\(.*\)@Some\.0$", {"Final"}, desc="head status is Final")
    edges = set()
    # going round the loop again (reaching `next` from after a `next`) requires Final + both equalities
    start = nx.node()["t"]
    for l in (fin, va, it):
        e = eng.establishing_edges(l)
        reach = v.reachable(start, "normal", cut_edges=e, cut_blocks={s.bb for s in falses})
        cx.check(nx.bb not in reach, "the next head is examined (and finally `true` returned) only if the current one %r" % l, nx, key="loop-needs %r" % l)
    s = cx.fn(r"^function::maybe_changed_after::validate_same_iteration$")
    cur = Cmp(r"^\$4$", "==", r"current_revision\(\$1\)$", desc="memo.verified_at == current revision")
    for site, kind, node in value_defs(s, 0):
        o = s._origin_def(site, kind, node, 0, None, ())
        if o == "const:0":
            continue
        cx.only_if(s, site, cur, "same-iteration reuse only within the current revision")
    nxs = [c for c in s.calls(r"^std::iter::Iterator::next$") if "TryClaimCycleHeadsIter" in c.node()["fn"].get("self_ty", "")]
    cx.require(len(nxs) == 1, "TryClaimCycleHeadsIter next")
    nx = nxs[0]
    eng = OnlyIf(cx.facts, s)
    falses = [site for site, kind, node in value_defs(s, 0) if s._origin_def(site, kind, node, 0, None, ()) == "const:0"]
    cyc = VariantIn(r"Iterator>::next\(.*\)@Some\.0$", {"Cycle"}, desc="head claim results in Cycle (it is being iterated)")
    e = eng.establishing_edges(cyc)
    reach = s.reachable(nx.node()["t"], "normal", cut_edges=e, cut_blocks={x.bb for x in falses})
    cx.check(nx.bb not in reach, "every head must be an active cycle head of the same iteration", nx, key="loop-needs-cycle")
    for l in (Cmp(r"head_iteration$", "==", r"memo_iteration$", desc="head_iteration == memo_iteration"), Cmp(r"@Cycle\.verified_at$", "==", r"^\$4$", desc="head verified_at == memo verified_at")):
        e = eng.establishing_edges(l)
        reach = s.reachable(nx.node()["t"], "normal", cut_edges=e, cut_blocks={x.bb for x in falses})
        cx.check(nx.bb not in reach, "continuing past a head requires %r" % l, nx, key="loop-needs %r" % l)


@ob("C13.1", ["C13"], "a fallback cycle that leaks the body's value for a participant makes results depend on which function was requested first", kind="FLOW")
def c13_1(cx):
    """execute_maybe_iterate with CYCLE_STRATEGY == FallbackImmediate: the value broken out of the loop for a Participant and the value stored/returned for a CycleHead are C::cycle_initial(db, id, input); value_converged is `true`; Completed (not in a cycle) keeps the body's value."""
    m = cx.fn(EXI + r"execute_maybe_iterate$")
    ci = cx.some_calls(m, r"^function::Configuration::cycle_initial$", 2, "cycle_initial calls (participant + head)")
    fb = Cmp(r"Configuration::CYCLE_STRATEGY", "==", r"CycleRecoveryStrategy::FallbackImmediate", desc="strategy == FallbackImmediate")
    for c in ci:
        cx.only_if(m, c, fb, "the fallback replaces the value only for FallbackImmediate")
    cp = cx.one_call(m, EX + r"complete_cycle_participant$", "complete_cycle_participant")
    eqs = {s.bb for s in m.calls(r"execute_query$")}
    part = [c for c in ci if cp.bb in m.reachable(c.node()["t"], "normal", cut_blocks=eqs)]
    cx.check(len(part) == 1, "a participant's value is replaced before it completes", cp, key="participant-replaced")
    # skipped only if not FallbackImmediate
    if part:
        cx.skipped_only_if(m, part[0], Cmp(r"Configuration::CYCLE_STRATEGY", "!=", r"CycleRecoveryStrategy::FallbackImmediate"), "a FallbackImmediate participant never keeps its body value", exits=[cp.bb])
    rc = cx.one_call(m, r"^function::Configuration::recover_from_cycle$", "recover_from_cycle")
    cx.only_if(m, rc, Cmp(r"Configuration::CYCLE_STRATEGY", "!=", r"CycleRecoveryStrategy::FallbackImmediate"), "fixpoint recovery is not used for FallbackImmediate")
    head = [c for c in ci if c not in part]
    tc = cx.one_call(m, EX + r"try_complete_cycle_head$", "try_complete_cycle_head")
    for c in head:
        cx.check(tc.bb in m.reachable(c.node()["t"], "normal", cut_blocks=eqs), "a FallbackImmediate head's value is replaced before convergence is judged", c, key="head-replaced")
    if head:
        cx.skipped_only_if(m, head[0], Cmp(r"Configuration::CYCLE_STRATEGY", "!=", r"CycleRecoveryStrategy::FallbackImmediate"), "a FallbackImmediate head never keeps its body value", exits=[tc.bb])
    # returned tuple .0 originates from one of: execute_query result (Completed / Fixpoint participant), cycle_initial, recover_from_cycle
    ro = m.origin_local(0)
    cx.check("cycle_initial(" in ro and "recover_from_cycle(" in ro and "execute_query(" in ro, "the returned value is the body result, the recovered value, or the fallback", None, {"origin": ro[:300]}, key="ret-origins", body=m)


@ob("C15.1", ["C15"], "an iteration counter that can wrap (or a bound that is never compared) lets a diverging cycle spin forever", kind="CONST+ONLYIF")
def c15_1(cx):
    """MAX_ITERATIONS == 200 < u8::MAX; increment_iteration returns Some(next) only if next.iteration() <= MAX_ITERATIONS; next = Self(self.0 + 1)."""
    f = cx.facts
    b = cx.fn(r"^cycle::IterationStamp::increment_iteration$")
    mx = f.const("cycle::MAX_ITERATIONS")
    cx.check(mx == 200, "MAX_ITERATIONS == 200", body=b, detail={"MAX_ITERATIONS": mx}, key="max-200")
    cx.check(mx is not None and mx < 255, "MAX_ITERATIONS < u8::MAX (the iteration byte cannot wrap into the cancellation byte)", body=b, key="lt-u8max")
    le = Cmp(r"IterationStamp::iteration\(IterationStamp\{0: \(\$1\.0 Add(WithOverflow)? const:1\)(\.0)?\}\)$", "<=", r"MAX_ITERATIONS", desc="next.iteration() <= MAX_ITERATIONS")
    cx.returns_only_if(b, {"Some"}, le, "Some(next) only within the bound")
    for s in cx.ret_sites(b, "Some"):
        o = b._origin_def(s, "assign", s.node(), 0, None, ())
        cx.flow(b, o, [r"^Option::Some\{0: IterationStamp\{0: \(\$1\.0 Add(WithOverflow)? const:1\)(\.0)?\}\}$"], [r"Some\{0: \$1\}"], "the stamp advances by exactly one", s)


@ob("C15.2", ["C15"], "a caller that ignores the exhausted counter keeps iterating with a stale stamp", kind="FLOW+LOOPRANK")
def c15_2(cx):
    """Every call site of increment_iteration (floor 3) feeds Option::unwrap_or_else with a diverging closure; the iteration loop's only way round is through try_complete_cycle_head returning Err (whose stamp was incremented)."""
    sites = cx.facts.call_sites_of(r"^cycle::IterationStamp::increment_iteration$")
    cx.sites(sites, 3, "call sites of increment_iteration")
    for s in sites:
        b = s.body
        uw = [c for c in b.calls(r"^std::option::Option::<T>::unwrap_or_else$") if re.search(r"^cycle::IterationStamp::increment_iteration\(", cx.arg(c, 0)) and b.reaches(s, c)]
        cx.check(len(uw) >= 1, "the result of increment_iteration is unwrapped with a handler", s, key="unwrapped " + b.path)
        for c in uw:
            m = re.match(r"^closure:([^\[]+)\[", cx.arg(c, 1))
            cx.require(m is not None, "handler closure of %s" % b.path)
            kb = cx.facts.body(m.group(1))
            cx.check(cx.facts.diverges(kb), "running out of iterations panics (the handler never returns)", c, key="handler-diverges " + b.path)
    m = cx.fn(EXI + r"execute_maybe_iterate$")
    tc = cx.one_call(m, EX + r"try_complete_cycle_head$", "try_complete_cycle_head")
    be = m.back_edges()
    cx.require(len(be) >= 1, "iteration loop back edge")
    eng = OnlyIf(cx.facts, m)
    err = VariantIn(r"try_complete_cycle_head\(", {"Err"}, desc="try_complete_cycle_head returned Err (iteration advanced)")
    edges = eng.establishing_edges(err)
    heads = {t for (_, t) in be}
    # the loop head of the iteration loop = the back-edge target that dominates the try_complete_cycle_head call
    dom = m.dominators()
    loops = [(s_, t_) for (s_, t_) in be if t_ in dom.get(tc.bb, ())]
    cx.require(loops, "the iteration loop contains try_complete_cycle_head")
    for (src, tgt) in loops:
        reach = m.reachable(tgt, "normal", cut_edges=edges | {(src, tgt)})
        cx.check(src not in reach or (src, tgt) is None, "the loop goes round only after try_complete_cycle_head returned Err with an incremented stamp", Site(m, src, len(m.blocks[src]["stmts"])), key="loop-rank")
    st = [d for d in m.full_defs_named("iteration")] if hasattr(m, "full_defs_named") else []


@ob("C12.5", ["C12", "C18", "C01", "C13", "C10"], "a cycle query whose stored origin misses a leaf dependency of a provisional callee (or keeps the provisional callee itself) is later validated against the wrong inputs: a stale fixpoint result is reused", kind="MUSTCALL+TABLE (flattening visits every edge; sibling impls)")
def c12_5(cx):
    """complete_cycle_query stores flatten(input_outputs) - not the direct edges - as the origin; flatten_cycle_dependencies visits every direct edge (inputs through the owning ingredient's flatten_cycle_head_dependencies with the edge's own key, outputs verbatim); the ingredient impls agree: leaves insert their own input edge, functions delegate with (self, key of id, C::CYCLE_STRATEGY); the function walker returns without contributing only for a missing memo or an already visited key, inserts the key itself iff the memo is final, copies every input of cycle-handling callees and recurses into every input of plain callees."""
    c = cx.fn(EXE + r"complete_cycle_query$")
    fl = cx.one_call(c, EXE + r"flatten_cycle_dependencies$", "flatten in complete_cycle_query")
    a = cx.args(fl)
    cx.flow(c, a[1], [r"^zalsa_local::DetachedQuery::<'_>::input_outputs\(zalsa_local::ActiveQueryGuard::<'me>::detach\(\$2\)\)$"], [], "the edges flattened are this execution's own input_outputs", fl)
    fin = cx.one_call(c, r"QueryCompletion::<'.*>::finish$|QueryCompletion.*::finish$", "finish in complete_cycle_query")
    cx.order(fl, fin, "flattening precedes building the origin")
    cx.flow(c, cx.arg(fin, 1), [r"^indexmap::IndexSet::<T, S>::drain\(" + re.escape(a[2]) + r", RangeFull\{\}\)$", r"IndexSet::<T, S>::drain\("], [r"input_outputs"], "the stored origin is the flattened set", fin)
    cx.check(a[2] in cx.arg(fin, 1), "the set drained into the origin is the one that was filled", fin, {"filled": a[2], "stored": cx.arg(fin, 1)}, key="same-set")
    f = cx.fn(EXE + r"flatten_cycle_dependencies$")
    loops = cx.for_loops(f)
    cx.require(len(loops) == 1, "flatten_cycle_dependencies: one loop")
    nx = loops[0][0]
    cx.flow(f, cx.arg(nx, 0), [r"copied\(indexmap::IndexSet::<T, S>::iter\(\$2\)\)\)$"], [r"rev|skip|take|filter"], "the loop runs over all direct edges", nx)
    rec = cx.one_call(f, r"^ingredient::Ingredient::flatten_cycle_head_dependencies$", "dispatch to the owning ingredient")
    ins = cx.one_call(f, r"^indexmap::IndexSet::<T, S>::insert$", "output carried over")
    cx.for_each(f, nx, [rec, ins], "flatten_cycle_dependencies")
    edge = r"<Copied as std::iter::Iterator>::next\(.*\)@Some\.0"
    kind = r"QueryEdge::kind\(" + edge + r"\)"
    cx.only_if(f, ins, VariantIn(kind, {"Output"}, desc="edge.kind() is Output"), "an edge is copied verbatim only if it is an output of this query")
    cx.only_if(f, rec, VariantIn(kind, {"Input"}, desc="edge.kind() is Input"), "inputs are flattened through their ingredient")
    ra = cx.args(rec)
    key = r"zalsa_local::QueryEdge::key\(" + edge + r"\)"
    cx.flow(f, ra[0], [r"^zalsa::Zalsa::lookup_ingredient\(\$1, key::DatabaseKeyIndex::ingredient_index\(" + key + r"\)\)$"], [], "the ingredient asked is the edge's own", rec)
    cx.flow(f, ra[2], [r"^key::DatabaseKeyIndex::key_index\(" + key + r"\)$"], [], "with the edge's own id", rec)
    cx.check(ra[3] == "$3" and ra[4] == "$4" and cx.arg(ins, 0) == "$3", "both arms fill the caller's flattened set / seen set", rec, {"args": ra}, key="sets")
    cx.flow(f, cx.arg(ins, 1), [r"^" + edge + r"$"], [], "the output edge is carried over unchanged", ins)
    # sibling implementations
    impls = cx.fns(r"^<.* as ingredient::Ingredient>::flatten_cycle_head_dependencies$", 6)
    table = {}
    for b in impls:
        if cx.facts.diverges(b):
            table[b.path] = "panics"
            continue
        ins_ = b.calls(r"^indexmap::IndexSet::<T, S>::insert$")
        dele = b.calls(r"^function::flatten_cycle_head_dependencies$")
        if ins_ and not dele:
            table[b.path] = "leaf"
            cx.check(len(ins_) == 1 and cx.facts.must_call(b, r"^indexmap::IndexSet::<T, S>::insert$"), "leaf ingredient always records itself", ins_[0], key="leaf-insert " + b.path)
            cx.flow(b, cx.arg(ins_[0], 0), [r"^\$4$"], [], "into the flattened set", ins_[0])
            cx.flow(b, cx.arg(ins_[0], 1), [r"^zalsa_local::QueryEdge::input\(.*::database_key_index\(\$1, \$3\)\)$"], [r"QueryEdge::output"], "as an input edge for (its own ingredient, the id asked)", ins_[0])
        elif dele:
            table[b.path] = "function"
            d = dele[0]
            da = cx.args(d)
            cx.check(cx.facts.must_call(b, r"^function::flatten_cycle_head_dependencies$"), "function ingredient always delegates to the walker", d, key="fn-delegate")
            cx.flow(b, da[2], [r"^function::IngredientImpl::<C>::database_key_index\(\$1, \$3\)$"], [], "with its own key for the id asked", d)
            cx.flow(b, da[3], [r"^const:.*CYCLE_STRATEGY"], [r"CycleRecoveryStrategy::(Panic|Fixpoint|FallbackImmediate)\{"], "and its own cycle strategy", d)
            cx.check(da[1] == "$2" and da[4] == "$4" and da[5] == "$5", "and the caller's sets", d, {"args": da}, key="fn-sets")
        else:
            table[b.path] = "unknown"
            cx.check(False, "flatten_cycle_head_dependencies impl neither records, delegates nor panics", None, key="impl-unknown " + b.path, body=b)
    kinds = sorted(table.values())
    cx.check(kinds.count("leaf") == 3 and kinds.count("function") == 1, "three leaf impls (input field, tracked field, interned) and the function impl", None, {"table": table}, key="impl-table", body=impls[0])
    w = cx.fn(r"^function::flatten_cycle_head_dependencies$")
    memo = r"FunctionIngredient>::memo\(\$1, \$2, key::DatabaseKeyIndex::key_index\(\$3\)\)"
    prov = CallIs(r"MemoHeader::may_be_provisional$", True, desc="memo.may_be_provisional()")
    own = cx.one_call(w, r"^indexmap::IndexSet::<T, S>::insert$", "final callee recorded")
    cx.flow(w, cx.arg(own, 1), [r"^zalsa_local::QueryEdge::input\(\$3\)$"], [], "a final callee is recorded by its own key", own)
    cx.only_if(w, own, CallIs(r"MemoHeader::may_be_provisional$", False, desc="!memo.may_be_provisional()"), "the callee itself is recorded only if its memo is final")
    loops = cx.for_loops(w)
    cx.require(len(loops) == 2, "walker: two loops (cycle-handling callee / plain callee)")
    inputs = r"zalsa_local::QueryOriginRef::<'a>::inputs\(function::memo::MemoHeader::origin\(function::memo::ErasedMemo::<'memo>::header\(<FunctionIngredient as function::FunctionIngredient>::memo\(\$1, \$2, key::DatabaseKeyIndex::key_index\(\$3\)\)@Some\.0\)\)\)"
    eq = w.calls(r"^std::cmp::PartialEq::eq$")
    insfs = [x for x in w.calls(r"^indexmap::IndexSet::<T, S>::(insert_full|insert)$") if x != own and cx.arg(x, 0) == "$5"]
    recw = cx.one_call(w, r"^ingredient::Ingredient::flatten_cycle_head_dependencies$", "recursion in the walker")
    for nx, some_bb, none_bb in loops:
        src = cx.arg(nx, 0)
        if "QueryEdge::input" in src:
            cx.flow(w, src, [r"^<Map as std::iter::IntoIterator>::into_iter\(<FilterMap as std::iter::Iterator>::map\(" + inputs + r", fn:zalsa_local::QueryEdge::input\)\)$"], [r"rev|skip|take"], "copy loop: over every input of the callee's memo", nx)
            same = Cmp(r"^indexmap::IndexSet::<T, S>::get_index\(", "==", r"^Option::Some\{0: ", desc="flattened[expected_index] == Some(&input)")
            cx.for_each(w, nx, insfs, "walker/copy", allow_skip=[same])
            cx.only_if(w, nx, VariantIn(r"^\$4$", {"Fixpoint", "FallbackImmediate"}, desc="callee has cycle handling"), "inputs are copied (not recursed into) only for callees that flattened their own origin")
            cx.require(len(eq) == 1, "one equality test in the copy loop")
            ea = cx.args(eq[0])
            item = r"<Map as std::iter::Iterator>::next\(.*\)@Some\.0"
            cx.flow(w, ea[1], [r"^Option::Some\{0: " + item + r"\}$"], [], "the element compared is the current input", eq[0])
            cx.flow(w, ea[0], [r"^indexmap::IndexSet::<T, S>::get_index\(\$5, "], [], "against the flattened set", eq[0])
            for insf in insfs:
                cx.flow(w, cx.arg(insf, 1), [r"^" + item + r"$"], [], "the element inserted is the current input", insf)
        else:
            cx.flow(w, src, [r"^<FilterMap as std::iter::IntoIterator>::into_iter\(" + inputs + r"\)$"], [r"rev|skip|take"], "recursion loop: over every input of the callee's memo", nx)
            cx.for_each(w, nx, [recw], "walker/recurse")
            ra = cx.args(recw)
            item = r"<FilterMap as std::iter::Iterator>::next\(.*\)@Some\.0"
            cx.flow(w, ra[0], [r"^zalsa::Zalsa::lookup_ingredient\(\$2, key::DatabaseKeyIndex::ingredient_index\(" + item + r"\)\)$"], [], "recursion asks the input's own ingredient", recw)
            cx.flow(w, ra[2], [r"^key::DatabaseKeyIndex::key_index\(" + item + r"\)$"], [], "with the input's own id", recw)
            cx.check(ra[3] == "$5" and ra[4] == "$6", "and the same sets", recw, {"args": ra}, key="rec-sets")
    # early returns: only (no memo) | (final: recorded) | (already seen)
    seen = cx.one_call(w, r"^std::collections::HashSet::<T, S, A>::insert$", "seen.insert")
    cx.flow(w, cx.arg(seen, 1), [r"^\$3$"], [], "the visited mark is the callee's key", seen)
    lits = [VariantIn(memo, {"None"}, desc="no memo"), CallIs(r"^std::collections::HashSet::<T, S, A>::insert$", False, desc="already visited")]
    rets = w.return_blocks()
    eng = OnlyIf(cx.facts, w)
    cut = set()
    for l in lits:
        cut |= set(eng.establishing_edges(l))
    hdrs = {nx.bb for nx, _, _ in loops}
    reach = w.reachable(0, "normal", cut_edges=cut, cut_blocks={own.bb} | hdrs)
    bad = [r for r in rets if r in reach]
    cx.check(not bad, "the walker returns without recording the callee or walking its inputs only if there is no memo or the key was already visited", own, {"exits": bad} if bad else None, key="walker-exits")


@ob("C12.1", ["C12", "C15", "C20", "C13"], "a cycle seeded with anything but cycle_initial, or with a stamp that claims finality / a non-minimal changed_at or durability, makes the iteration start above the bottom element (not the least fixpoint) or lets readers trust the seed", kind="FLOW")
def c12_1(cx):
    """fetch_cold_cycle's only insert: Memo::new(Some(C::cycle_initial(db, id, C::id_to_input(zalsa, id))), zalsa.current_revision(), QueryRevisions::fixpoint_initial(key, iteration)); fixpoint_initial = {changed_at: Revision::start(), durability: MAX, origin: derived(no edges, extra{cycle_heads: CycleHeads::initial(key, iteration), iteration, ..}), verified_final: false}; CycleHeads::initial = [CycleHead{key, iteration, removed: false}]; IterationStamp::initial(c) = new(0, c)."""
    c = cx.fn(r"^function::fetch::<impl function::IngredientImpl<C>>::fetch_cold_cycle$")
    ins = cx.one_call(c, r"^function::IngredientImpl::<C>::insert_memo$", "insert in fetch_cold_cycle")
    a = cx.args(ins)
    cx.check(a[0] == "$1" and a[1] == "$2" and a[2] == "$5" and a[4] == "$7", "the seed is inserted for the key and memo slot asked", ins, {"args": [a[0], a[1], a[2], a[4]]}, key="seed-slot")
    cx.flow(c, a[3], [r"^function::memo::Memo::<C>::new\(Option::Some\{0: <C as function::Configuration>::cycle_initial\(\$4, \$5, <C as function::Configuration>::id_to_input\(\$2, \$5\)\)\}, zalsa::Zalsa::current_revision\(\$2\), zalsa_local::QueryRevisions::fixpoint_initial\(\$6, std::option::Option::<T>::unwrap_or_else\(std::option::Option::<T>::and_then\(function::memo::<impl function::IngredientImpl<C>>::get_memo_from_table_for\(\$1, \$2, \$5, \$7\), closure:.*fetch_cold_cycle::\{closure#1\}\[.*\]\), closure:.*fetch_cold_cycle::\{closure#2\}\[.*\]\)\)\)$"], [r"Option::None", r"<C as function::Configuration>::execute"], "seed = Memo::new(Some(cycle_initial(db, id, input)), current_revision, fixpoint_initial(key, iteration of the previous seed or initial))", ins)
    k2 = cx.fn(r"^function::fetch::<impl function::IngredientImpl<C>>::fetch_cold_cycle::\{closure#2\}$")
    cx.flow(k2, k2.origin_local(0), [r"^cycle::IterationStamp::initial\(\$1\.0\)$", r"^cycle::IterationStamp::initial\("], [], "a fresh cycle starts at IterationStamp::initial(cancellation_count)")
    fi = cx.fn(r"^zalsa_local::QueryRevisions::fixpoint_initial$")
    cx.flow(fi, fi.origin_local(0), [r"^QueryRevisions\{changed_at: revision::Revision::start\(\), durability: const:durability::Durability::MAX(=\d+)?, origin_and_extra: zalsa_local::OriginAndExtra::derived\(std::iter::empty\(\), zalsa_local::QueryRevisionsExtra::new\((<AccumulatedMap as std::default::Default>::default\(\), )?<ThinVec as std::default::Default>::default\(\), cycle::CycleHeads::initial\(\$1, \$2\), \$2, const:0\)\), (accumulated_inputs: [^,]*, )?verified_final: std::sync::atomic::Atomic::<bool>::new\(const:0\)\}$"], [r"Atomic::<bool>::new\(const:1\)", r"derived_untracked", r"durability: const:durability::Durability::(MIN|LOW|MEDIUM|HIGH)\b", r"changed_at: (?!revision::Revision::start\(\))"], "fixpoint_initial: bottom stamp, no edges, provisional, head = itself at this iteration")
    ch = cx.fn(r"^cycle::CycleHeads::initial$")
    push = cx.one_call(ch, r"^thin_vec::ThinVec::<T>::push$", "push in CycleHeads::initial")
    cx.flow(ch, cx.arg(push, 1), [r"^CycleHead\{database_key_index: \$1, iteration: \$2, removed: const:0\}$"], [r"removed: const:1"], "the initial head list is exactly [(key, iteration, not removed)]", push)
    ii = cx.fn(r"^cycle::IterationStamp::initial$")
    cx.flow(ii, ii.origin_local(0), [r"^cycle::IterationStamp::new\(const:0, \$1\)$"], [r"new\(const:[1-9]"], "the initial stamp has iteration 0")
    nw = cx.fn(r"^cycle::IterationStamp::new$")
    cx.flow(nw, nw.origin_local(0), [r"^IterationStamp\{0: core::num::<impl u16>::from_le_bytes\(array\(\$1, \$2\)\)\}$"], [r"array\(\$2, \$1\)"], "stamp = (iteration in the low byte, cancellation count in the high byte)")
    itf = cx.fn(r"^cycle::IterationStamp::iteration$")
    cx.flow(itf, itf.origin_local(0), [r"^core::num::<impl u16>::to_le_bytes\(\$1\.0\)\[const:0\]$"], [r"\[const:1\]"], "iteration() reads the low byte")
    cc = cx.fn(r"^cycle::IterationStamp::cancellation_count$")
    cx.flow(cc, cc.origin_local(0), [r"^core::num::<impl u16>::to_le_bytes\(\$1\.0\)\[const:1\]$"], [r"\[const:0\]"], "cancellation_count() reads the high byte")


@ob("C18.5", ["C18", "C12", "C16"], "a cycle head that is RUNNING ON ANOTHER THREAD is mid-iteration: treating it like a head of our own cycle (comparing iteration counts only) accepts a provisional value of an unfinished iteration as the result", kind="TABLE+ONLYIF (claim result -> head verdict)")
def c18_5(cx):
    """TryClaimCycleHeadsIter::next: peek_claim(head, Reentrancy::Deny) decides: Cycle -> TryClaimHeadsResult::Cycle{memo_iteration: the head memo's iteration, head_iteration: the iteration recorded in this memo's head list, verified_at} (Poisoned in this revision/cancellation epoch -> propagate the panic, otherwise Available); Running -> never Cycle (the caller must not reuse); Claimed -> Available. validate_same_iteration returns true only if every head answered Cycle with equal verified_at and iteration."""
    n = cx.fn(r"^<function::memo::TryClaimCycleHeadsIter<'_> as std::iter::Iterator>::next$")
    pk = cx.one_call(n, r"SyncTable::peek_claim$", "peek_claim in TryClaimCycleHeadsIter::next")
    cx.flow(n, cx.arg(pk, 3), [r"^Reentrancy::Deny\{\}$"], [r"Reentrancy::Allow"], "heads are peeked without re-entrancy", pk)
    claim = r"SyncTable::peek_claim\("
    cyc = cx.sites(n.aggregates(r"TryClaimHeadsResult$", "Cycle"), 1, "TryClaimHeadsResult::Cycle aggregate")
    for s in cyc:
        cx.only_if(n, s, VariantIn(claim, {"Cycle"}, desc="peek_claim(head) == Cycle (the head is blocked on this thread)"), "a head counts as part of our own cycle only if claiming it would form a cycle")
        o = n._origin_def(s, "assign", s.node(), 0, None, ())
        cx.flow(n, o, [r"head_iteration: cycle::AtomicIterationStamp::load\(.*CycleHeadsIterator.*next\(.*\)\?\.iteration\)"], [], "head_iteration is the iteration this memo recorded for the head", s)
        cx.flow(n, o, [r"memo_iteration: .*provisional_status\("], [r"memo_iteration: cycle::AtomicIterationStamp::load"], "memo_iteration is the head memo's current iteration", s)
    av = n.aggregates(r"TryClaimHeadsResult$", "Available")
    cx.sites(av, 1, "Available")
    for s in av:
        cx.only_if_any(n, s, [VariantIn(claim, {"Claimed"}), VariantIn(claim, {"Cycle"})], "Available only for a claimable head (or a stale poisoned one)")
    v = cx.fn(r"^function::maybe_changed_after::validate_same_iteration$")
    it = r"TryClaimCycleHeadsIter as std::iter::Iterator>::next\("
    for site, kind, node in value_defs(v, 0):
        o = v._origin_def(site, kind, node, 0, None, ())
        if o == "const:1":
            cx.only_if(v, site, VariantIn(it, {"None"}, desc="all heads examined"), "validate_same_iteration: true only after every head was examined")
    loops = cx.for_loops(v)
    cx.require(len(loops) == 1, "validate_same_iteration: one loop over the heads")
    nx, some_bb, none_bb = loops[0]
    eng = OnlyIf(cx.facts, v)
    item = it + r".*\)@Some\.0"
    lits = [VariantIn(item + r"$", {"Cycle"}, desc="head verdict is Cycle"),
            Cmp(item + r"@Cycle\.verified_at$", "==", r"^\$4$", desc="head.verified_at == memo.verified_at"),
            Cmp(item + r"@Cycle\.head_iteration$", "==", item + r"@Cycle\.memo_iteration$", desc="recorded iteration == head's current iteration")]
    for l in lits:
        e = eng.establishing_edges(l)
        reach = v.reachable(some_bb, "normal", cut_edges=e, cut_blocks={nx.bb})
        cx.check(nx.bb not in reach, "validate_same_iteration moves on to the next head only if %r" % l, nx, key="same-iter-needs %r" % l)


@ob("C13.4", ["C13"], "a fallback-cycle participant whose memo is still provisional when a later revision asks for it is re-executed ON ITS OWN: its head's final memo validates (flattened inputs unchanged), no cycle is seen, and the participant memoizes its body value instead of its fallback - the result depends on which member was requested in which revision (finding F5)", kind="ONLYIF (provisional memos of earlier revisions are revalidated through their heads)")
def c13_4(cx):
    """deep_verify_memo answers Changed for a provisional memo only after the lazy finalisation through its cycle heads (validate_provisional / validate_may_be_provisional) was attempted. On today's tree it is not: known finding F5 (findings/F5/demo_f5.rs)."""
    d = cx.fn(MH + r"deep_verify_memo$")
    prov = CallIs(r"MemoHeader::may_be_provisional$", True, [r"^\$1$"], desc="self.may_be_provisional()")
    eng = OnlyIf(cx.facts, d)
    chs = [s for s in d.calls(r"^function::maybe_changed_after::VerifyResult::changed$") if eng.guarded(s, prov)]
    cx.sites(chs, 1, "the `provisional => changed` exit of deep_verify_memo")
    val = d.calls(r"validate_provisional$|validate_may_be_provisional$")
    # (finalize_cycle_head in try_complete_cycle_head finalises nested HEADS only; plain participants stay provisional)
    for s in chs:
        ok = any(d.site_dominates(v, s) for v in val)
        cx.check(ok, "a provisional participant of an earlier revision is revalidated through its cycle heads before it is re-executed alone", s, {"validate_calls_in_deep_verify_memo": len(val)}, key="lone-reexecution-of-participant")


@ob("C12.6", ["C12", "C18", "C15"], "iteration stamps identify WHICH iteration a provisional memo saw: a former head that completes without a cycle after iterating and gets stamp 0 again is indistinguishable from its own initial value, so lazy finalisation accepts participants computed from bottom", kind="FLOW (stamp of a query that completes outside a cycle)")
def c12_6(cx):
    """try_complete_query, no-cycle-heads exit: the completed query is popped with IterationStamp::default() only if this was the initial iteration, otherwise with the INCREMENTED stamp (never a reset to initial)."""
    t = cx.fn(EXE + r"try_complete_query$")
    pops = [s for s in t.calls(r"ActiveQueryGuard::<'.*>::pop$|ActiveQueryGuard.*::pop$")]
    cx.sites(pops, 1, "pop on the no-cycle exit of try_complete_query")
    for p in pops:
        o = cx.arg(p, 1)
        cx.flow(t, o, [r"^phi\{(<IterationStamp as std::default::Default>::default\(\) \| std::option::Option::<T>::unwrap_or_else\(cycle::IterationStamp::increment_iteration\(\$4\), closure:.*\)|std::option::Option::<T>::unwrap_or_else\(cycle::IterationStamp::increment_iteration\(\$4\), closure:.*\) \| <IterationStamp as std::default::Default>::default\(\))\}$"], [r"IterationStamp::initial\(", r"^\$4$"], "the stamp is default() for a first iteration and the incremented stamp otherwise", p)
    init = CallIs(r"IterationStamp::is_initial_iteration$", True, [r"^\$4$"], desc="iteration.is_initial_iteration()")
    for d in t.calls(r"Default>::default$|IterationStamp.*default$"):
        cx.only_if(t, d, init, "the default (zero) stamp is used only when no iteration took place")


@ob("C12.7", ["C12", "C18", "C13"], "whether a completing query is the head of its cycle (and with which iteration stamp it goes on) decides who iterates: a participant mistaken for a head iterates on its own with stale heads, a head mistaken for a participant hands its value up un-iterated; a recursion that skips nested heads loses the outermost head", kind="ONLYIF+FLOW+LOOP (cycle-head resolution)")
def c12_7(cx):
    """try_complete_query: Completed only if no cycle heads were collected; Participant only if collect_all_cycle_heads(..).1 (depends_on_self) is false and there is an outer cycle; CycleHead only if it is true, with cycle_iteration = max_iteration when there is no outer cycle and the current iteration otherwise. collect_recursive: (default, true) exactly when the head examined is the query itself; otherwise every head of the examined head's provisional memo is folded into max_iteration (Ord::max) and, unless already known to the query or already collected, recorded and recursed into (depends_on_self is OR-ed). The outer loop recurses into every own head."""
    t = cx.fn(EXE + r"try_complete_query$")
    col = r"function::execute::collect_all_cycle_heads\(\$1, zalsa_local::ActiveQueryGuard::<'me>::take_cycle_heads\(\$2\), \$2\.database_key_index, \$4\)"
    dep = BoolIs(r"^" + col + r"\.1$", True, desc="depends_on_self")
    nodep = BoolIs(r"^" + col + r"\.1$", False, desc="!depends_on_self")
    outer = r"function::execute::outer_cycle\("
    empty = CallIs(r"^cycle::CycleHeads::is_empty$", True, desc="no cycle heads")
    for s in cx.sites(t.aggregates(r"QueryExecutionOutcome$", "Completed"), 1, "Completed"):
        cx.only_if(t, s, empty, "a query completes outright only if it collected no cycle heads")
    for s in cx.sites(t.aggregates(r"QueryExecutionOutcome$", "Participant"), 1, "Participant"):
        cx.only_if(t, s, nodep, "Participant only if the result does not depend on the query's own provisional value")
        cx.only_if(t, s, VariantIn(outer, {"Some"}, desc="an outer cycle exists"), "a participant always has an outer cycle that will finalise it")
        cx.only_if(t, s, CallIs(r"^cycle::CycleHeads::is_empty$", False), "Participant only with cycle heads")
    for s in cx.sites(t.aggregates(r"QueryExecutionOutcome$", "CycleHead"), 1, "CycleHead"):
        cx.only_if(t, s, dep, "CycleHead only if the result depends on the query's own provisional value")
        o = t._origin_def(s, "assign", s.node(), 0, None, ())
        cx.flow(t, o, [r"cycle_iteration: phi\{(" + col + r"\.0 \| \$4|\$4 \| " + col + r"\.0)\}\}$"], [], "the head continues with max_iteration or its own iteration", s)
    # which of the two: max_iteration only for the outermost cycle
    for site, kind, node in [(x, k, n) for x, k, n in value_defs(t, 0)]:
        pass
    mx = [s for s in t.all_sites() if not s.is_term() and s.node()["k"] == "assign" and t._origin_def(s, "assign", s.node(), 0, None, ()) == "function::execute::collect_all_cycle_heads($1, zalsa_local::ActiveQueryGuard::<'me>::take_cycle_heads($2), $2.database_key_index, $4).0"]
    none_outer = VariantIn(outer, {"None"}, desc="there is no outer cycle")
    chosen = [s for s in mx if OnlyIf(cx.facts, t).guarded(s, dep)]
    cx.sites(chosen, 1, "selection of max_iteration as the head's iteration")
    for s in chosen:
        cx.only_if(t, s, none_outer, "max_iteration is adopted only by the outermost cycle head")
    r = cx.fn(EXE + r"collect_all_cycle_heads::collect_recursive$")
    me = Cmp(r"^\$2$", "==", r"^\$3$", desc="current_head == me")
    for site, kind, node in value_defs(r, 0):
        o = r._origin_def(site, kind, node, 0, None, ())
        if re.search(r"1: const:1\}$", o):
            cx.only_if(r, site, me, "depends_on_self is reported outright only for the query itself")
            cx.flow(r, o, [r"^tuple\{0: <IterationStamp as std::default::Default>::default\(\), 1: const:1\}$"], [], "with a neutral iteration", site)
    loops = cx.for_loops(r)
    cx.require(len(loops) == 1, "collect_recursive: one loop over the examined head's heads")
    nx = loops[0][0]
    cx.flow(r, cx.arg(nx, 0), [r"into_iter\(cycle::ProvisionalStatus::<'.*>::cycle_heads\("], [r"rev|skip|take"], "every head of the examined head's memo is looked at", nx)
    rec = cx.one_call(r, EXE + r"collect_all_cycle_heads::collect_recursive$", "recursion")
    known = CallIs(r"^cycle::CycleHeads::contains$", True, desc="already one of the query's heads")
    dup = CallIs(r"contains$", True, [r"^\$5$|missing"], desc="already collected")
    cx.for_each(r, nx, [rec], "collect_recursive", allow_skip=[known, dup])
    ra = cx.args(rec)
    cx.check(ra[0] == "$1" and ra[2] == "$3" and ra[3] == "$4" and ra[4] == "$5", "the recursion keeps zalsa, me, the query's heads and the collected set", rec, {"args": ra}, key="rec-args")
    cx.flow(r, ra[1], [r"Iterator>::next\(.*\)@Some\.0\.database_key_index$"], [], "and descends into the head just read", rec)
    # the fold of depends_on_self over the heads is an OR (an assignment would forget an earlier `true`)
    for body in (r, cx.fn(EXE + r"collect_all_cycle_heads$")):
        ok = False
        first = None
        for x in body.all_sites():
            if x.is_term() or x.node()["k"] != "assign" or x.node()["p"]["pj"]:
                continue
            rv = x.node()["rv"]
            if rv["k"] == "bin" and rv["op"] == "BitOr":
                if any(re.search(r"collect_recursive\(.*\)\.1", body.origin_op(rv[k], 0, None, x)) for k in ("a", "b")):
                    ok = True  # `acc |= nested`
                    first = first or x
            elif rv["k"] == "use":
                o = body.origin_op(rv["o"], 0, None, x)
                if re.search(r"^phi\{(const:1 \| .*collect_recursive\(.*\)\.1|.*collect_recursive\(.*\)\.1 \| const:1)\}$", o):
                    # `acc = acc || nested`: acc := true when it already was true, otherwise the recursive answer;
                    # confirm that the selecting switch tests (a copy of) the accumulator itself
                    acc = x.node()["p"]["l"]
                    first = first or x
                    for bi in body.live_blocks():
                        t = body.blocks[bi]["term"]
                        if t["k"] != "switch":
                            continue
                        op = t["o"].get("c") or t["o"].get("m")
                        if not op or op["pj"]:
                            continue
                        src = op["l"]
                        ds = body.full_defs(src)
                        if src != acc and len(ds) == 1 and ds[0][1] == "assign" and ds[0][2]["rv"]["k"] == "use":
                            q = ds[0][2]["rv"]["o"].get("c") or ds[0][2]["rv"]["o"].get("m")
                            if q and not q["pj"]:
                                src = q["l"]
                        if src == acc and body.reaches(Site(body, bi, 0), x):
                            ok = True
                elif re.search(r"collect_recursive\(.*\)\.1$", o) and x.node()["p"]["l"] not in (None,):
                    first = first or x
        cx.check(ok, "%s: depends_on_self accumulates the recursive answers with OR" % body.short, first, key="or-fold " + body.short, body=body)
    maxes = cx.some_calls(r, r"^std::cmp::Ord::max$", 2, "max folds in collect_recursive")
    cx.check(not r.calls(r"^std::cmp::Ord::min$"), "iterations are folded with max, never min", maxes[0], key="no-min")
    c = cx.fn(EXE + r"collect_all_cycle_heads$")
    loops = cx.for_loops(c)
    cx.require(len(loops) >= 1, "collect_all_cycle_heads: loop over the own heads")
    first = loops[0][0]
    rc = [s for s in c.calls(EXE + r"collect_all_cycle_heads::collect_recursive$")]
    cx.sites(rc, 1, "call of collect_recursive")
    cx.for_each(c, first, rc, "collect_all_cycle_heads")
    a = cx.args(rc[0])
    cx.check(a[0] == "$1" and a[2] == "$3" and a[3] == "$2", "each own head is resolved against (me, the query's own heads)", rc[0], {"args": a}, key="outer-args")


@ob("C12.8", ["C12", "C18", "C13"], "the cycle-head list of a memo decides which heads it is validated against and which head finalises it: losing a head on merge, resurrecting a removed one, or iterating removed heads changes who iterates and when a provisional value counts as final", kind="FLOW+LOOP (cycle-head set operations)")
def c12_8(cx):
    """CycleHeads: extend inserts EVERY head of the other list with its iteration; insert finds by key, revives a removed head with the new iteration, otherwise asserts equal iterations (never silently keeps a different one), pushes a new head when absent; remove_all_except marks every head but `except` removed (never `except` itself); the iterator skips removed heads; contains compares keys over the live heads; iter_not_eq filters exactly the own key."""
    e = cx.fn(r"^cycle::CycleHeads::extend$")
    loops = cx.for_loops(e)
    cx.require(len(loops) == 1, "extend: one loop")
    ins = cx.one_call(e, r"^cycle::CycleHeads::insert$", "insert in extend")
    cx.for_each(e, loops[0][0], [ins], "CycleHeads::extend")
    a = cx.args(ins)
    item = r"Iterator>::next\(.*\)@Some\.0"
    cx.check(a[0] == "$1", "extend inserts into self", ins, key="extend-self")
    cx.flow(e, a[1], [item + r"\.database_key_index$"], [], "the head's key", ins)
    cx.flow(e, a[2], [r"^cycle::AtomicIterationStamp::load\(.*" + item + r"\.iteration\)$"], [r"IterationStamp::(initial|default)"], "with the head's own iteration", ins)
    cx.skipped_only_if(e, ins, [CallIs(r"^cycle::CycleHeads::is_empty$", True, [r"^\$2$"], desc="other is empty"), VariantIn(r"Iterator>::next\(", {"None"})], "extend returns without inserting only for an empty list (or after the last head)")
    i = cx.fn(r"^cycle::CycleHeads::insert$")
    fc = cx.closure_passed_to(i, r"^std::iter::Iterator::find$")
    cx.flow(fc, fc.origin_local(0), [r"PartialEq>::eq\(\$2\.database_key_index, \$1\.0\)$", r"PartialEq>::eq\(\$1\.0, \$2\.database_key_index\)$"], [r"^const:"], "insert looks the head up by its key")
    found = VariantIn(r"Iterator>::find\(", {"Some"}, desc="head already present")
    absent = VariantIn(r"Iterator>::find\(", {"None"}, desc="head absent")
    push = cx.one_call(i, r"^thin_vec::ThinVec::<T>::push$", "push of a new head")
    cx.only_if(i, push, absent, "a head is appended only if it is not present yet")
    cx.flow(i, cx.arg(push, 1), [r"^cycle::CycleHead::new\(\$2, \$3\)$"], [], "the new head carries the key and iteration given", push)
    st = [x for x in cx.stores(i) if x[1].endswith(".iteration")]
    cx.sites(st, 1, "revival of a removed head")
    for s, po, vo in st:
        cx.only_if(i, s, found, "an existing head's iteration is overwritten only ..")
        cx.only_if(i, s, BoolIs(r"get_mut\(.*\.removed\)$|\.removed", True, desc="the head was marked removed"), ".. when it had been removed")
        cx.flow(i, vo, [r"Into>::into\(\$3\)$|^\$3$"], [], "with the iteration given", s)
    rs = [x for x in cx.stores(i) if "removed" in x[1] or x[2] == "const:0"]
    cx.check(any(x[2] == "const:0" for x in rs), "a revived head is marked live again", (rs or st)[0][0], key="revive-clears-removed")
    cx.check(bool(i.calls(r"assert_failed$")) , "a live head with a different iteration is rejected loudly (assert_eq), not merged silently", push, key="iteration-assert")
    r = cx.fn(r"^cycle::CycleHeads::remove_all_except$")
    loops = cx.for_loops(r)
    cx.require(len(loops) == 1, "remove_all_except: one loop")
    stc = cx.one_call(r, r"Atomic::<bool>::store$|AtomicBool::store$", "removed.store(true)")
    cx.flow(r, cx.arg(stc, 1), [r"^const:1$"], [r"^const:0$"], "heads are marked removed", stc)
    keep = CallIs(r"PartialEq::eq$", True, [None, r"^\$2$"], desc="head == except")
    cx.for_each(r, loops[0][0], [stc], "remove_all_except", allow_skip=[keep, Cmp(r"\.database_key_index$", "==", r"^\$2$")])
    cx.only_if(r, stc, Cmp(r"\.database_key_index$", "!=", r"^\$2$", desc="head != except"), "`except` itself is never removed")
    n = cx.fn(r"^<cycle::CycleHeadsIterator<'a> as std::iter::Iterator>::next$")
    for s in cx.ret_sites(n, "Some"):
        cx.only_if(n, s, CallIs(r"Atomic::<bool>::load$|AtomicBool::load$", False, desc="!head.removed"), "the iterator yields only live heads")
    c = cx.fn(r"^cycle::CycleHeads::contains$")
    ac = cx.closure_passed_to(c, r"^std::iter::Iterator::any$")
    cx.flow(ac, ac.origin_local(0), [r"PartialEq>::eq\(\$2\.database_key_index, \$1\.0\)$", r"PartialEq>::eq\(\$1\.0, \$2\.database_key_index\)$"], [r"^const:"], "contains compares keys")
    ne = cx.fn(r"^cycle::CycleHeads::iter_not_eq$")
    nc = cx.closure_passed_to(ne, r"^std::iter::Iterator::filter$")
    cx.flow(nc, nc.origin_local(0), [r"PartialEq>::ne\(\$2\.database_key_index, \$1\.0\)$", r"PartialEq>::ne\(\$1\.0, \$2\.database_key_index\)$"], [r"PartialEq>::eq\(", r"^const:"], "iter_not_eq drops exactly the own key")
