"""C14, C16, C17, C18, C19 — the claim / wait / transfer protocol."""
import re

from ..framework import ob, Inconclusive
from ..mirlib import Cmp, CallIs, VariantIn, BoolIs, OnlyIf, Site
from .c08_c09_interned import guard_live_at, LOCK
from .c01_reuse import ret_cases, value_defs

EXPLANATIONS = {
    "C14": "Decided: a wait is entered (BlockResult::Running built / DependencyGraph::block_on called) only if the other thread is "
    "not this thread and does not transitively wait on this thread; otherwise Cycle is reported; the Panic-strategy arms of the two "
    "cycle handlers diverge (no path returns a value); fetch_cold / maybe_changed_after_cold dispatch Claimed/Running/Cycle to "
    "execute-or-verify / block-then-retry / cycle handler; ClaimGuard and ActiveQueryGuard release on every exit including unwinding; "
    "a waiter woken with Panicked throws Cancelled::PropagatedPanic. maybe_changed_after_cold_cycle answers Changed on every non-diverging path. Not decided: behaviour of later histories.",
    "C16": "Decided: salsa's own locks are acquired in an acyclic order (lock-class graph computed from the MIR: only SYNC->DG, "
    "INTERN->PAGES style edges), never two sync-table guards at once, never parking (Condvar::wait) while a sync-table or interned "
    "shard guard is held; published data uses Release/Acquire (atomic table, C16.2); the wake-up orderings of C19 and the claim "
    "discipline of C17. Not decided: termination and values for concrete programs under all schedules.",
    "C17": "Decided: execute() takes a ClaimGuard by value and ClaimGuards are built only after the SyncState insert/update under the "
    "shard lock; an entry owned by a thread never yields Claimed; the memo that is verified/passed to execute is loaded AFTER the "
    "successful claim and verified before executing; insert_memo precedes the release of the claim and stamps verified_at = current "
    "revision; the shard depends only on the key. Key -> hash -> shard -> entry agreement in try_claim / peek_claim / mark_as_transfer_target, fresh SyncState{key, this thread, flags clear}, the guard releases the key and shard it claimed. Not decided: execution counts under concrete schedules.",
    "C18": "Decided: cycle participants and nested heads hand their lock to the outer head (TransferTo) instead of releasing it; "
    "a transferred lock is re-claimed only by the owner thread (or a thread the owner transitively waits on) and only with "
    "Reentrancy::Allow; transfer marks the target, updates the own state and calls transfer_lock under one sync guard; release "
    "undoes a double claim and wakes direct and transferred waiters. A head running on another thread is never treated as a head of our own cycle (TryClaimCycleHeadsIter::next), validate_same_iteration continues only for Cycle verdicts with equal verified_at and iteration; the re-transfer path walks the whole transfer chain in a loop; the search for the thread to resume is recursive. Not decided: termination/values under interleavings, acyclicity "
    "of the transfer forest as a data-structure invariant.",
    "C19": "Decided (for every path): block_on adds the edge, then releases the query's sync guard, then waits, re-checking wait_results "
    "before every wait and never dropping the graph guard in between; unblock_runtime removes the edge, stores the result, then "
    "notifies, and is the only site that does either; a wait is entered only behind the cycle check (C14.1); anyone_waiting is set "
    "before blocking inside the same sync critical section and release() returns early only if it is unset; every removal of a "
    "SyncState feeds release(); ClaimGuard::drop reaches a release on every path (Panicked/Cancelled when unwinding). Not decided: "
    "reachable-state invariants (unique edge per thread, forest shape) - that is model checking.",
}

SY = r"^function::sync::"
DG = r"^runtime::dependency_graph::DependencyGraph::"
RT = r"^runtime::Runtime::"


# ---------------------------------------------------------------------------------------------
# C14.1 / C19.3


@ob("C14.1", ["C14", "C19", "C16", "C18"], "a wait entered although the other thread (transitively) waits on this one closes a cycle of waiting threads: deadlock instead of a reported query cycle", kind="ONLYIF+WRITERS")
def c14_1(cx):
    """BlockResult::Running / BlockedOnInner are built only in Runtime::block and BlockOnTransferredOwner::block, only if thread_id != other_id and !dg.depends_on(other_id, thread_id); every call of DependencyGraph::block_on is Running::block_on (fed from those values) or transfer_lock behind the same check."""
    n = 0
    for b in cx.facts.all_bodies():
        for s in b.aggregates(r"^runtime::BlockedOnInner$") + b.aggregates(r"^runtime::BlockResult$", "Running"):
            n += 1
            if re.search(r"^runtime::Runtime::block$", b.path):
                me, other, dgo = r"^std::thread::Thread::id\(std::thread::current\(\)\)$", r"^\$3$", r"Mutex::<R, T>::lock\(\$1\.dependency_graph\)"
            elif re.search(r"^runtime::BlockOnTransferredOwner::<'me>::block$", b.path):
                me, other, dgo = r"^\$1\.thread_id$", r"^\$1\.other_id$", r"^\$1\.dg$"
            else:
                cx.check(False, "BlockResult::Running / BlockedOnInner built outside the two checked constructors", s, key="running-writer " + b.path)
                continue
            cx.only_if(b, s, Cmp(me, "!=", other, desc="thread_id != other_id"), "Running only if the owner is another thread")
            cx.only_if(b, s, CallIs(DG + r"depends_on$", False, [dgo, other, me], desc="!dg.depends_on(other_id, thread_id)"), "Running only if the owner does not wait on this thread")
            if s.node()["rv"].get("adt", "").endswith("BlockedOnInner"):
                o = b._origin_def(s, "assign", s.node(), 0, None, ())
                m = re.search(r"other_id: ([^,]+), thread_id: ([^}]+)\}", o)
                cx.check(bool(m) and re.search(other, m.group(1)) and re.search(me, m.group(2)), "the pair stored for the wait is the checked pair (other_id, thread_id)", s, {"origin": o[-200:]}, key="pair-stored")
    cx.require(n >= 4, "expected >= 4 Running/BlockedOnInner construction sites, found %d" % n)
    sites = cx.facts.call_sites_of(DG + r"block_on$")
    cx.sites(sites, 2, "call sites of DependencyGraph::block_on")
    for s in sites:
        b = s.body
        a = cx.args(s)
        if re.search(r"^runtime::Running::<'_>::block_on$", b.path):
            cx.check(a[1].endswith(".thread_id") and a[3].endswith(".other_id") and a[0].endswith(".dg"), "Running::block_on waits for exactly the pair checked at construction", s, {"args": [x[-60:] for x in a]}, key="running-pair")
        elif re.search(DG + r"transfer_lock$", b.path):
            cx.only_if(b, s, Cmp(r"^\$3$", "!=", a[3].replace("$", r"\$").replace("(", r"\(").replace(")", r"\)").replace("{", r"\{").replace("}", r"\}").replace("|", r"\|").replace("[", r"\[").replace("]", r"\]").replace(".", r"\.").replace("*", r"\*").replace("?", r"\?").replace("+", r"\+"), desc="current_thread != new_owner_thread"), "transfer blocks only on another thread")
            cx.only_if(b, s, CallIs(r"depends_on$", False, [None, None, r"^\$3$"], desc="!depends_on(new_owner_thread, current_thread)"), "transfer blocks only if the new owner does not wait on this thread")
            cx.flow(b, a[1], [r"^\$3$"], [], "the waiting thread is the current thread", s)
        else:
            cx.check(False, "DependencyGraph::block_on called from an unchecked site", s, key="block_on-writer " + b.path)
    # Edges::depends_on: walks blocked_on_id links
    d = cx.fn(r"^runtime::dependency_graph::Edges::depends_on$")
    cx.returns_only_if(d, False, Cmp(r".", "!=", r"^\$3$", desc="the walk never met to_id"), "depends_on returns false only if the chain never reaches to_id")


@ob("C14.2", ["C14"], "a Panic-strategy cycle that returns a value (or a verdict) instead of diverging yields a result computed from nothing", kind="ONLYIF")
def c14_2(cx):
    """In fetch_cold_cycle and maybe_changed_after_cold_cycle no path through the CycleRecoveryStrategy::Panic arm reaches a return."""
    for path, strat in ((r"^function::fetch::<impl function::IngredientImpl<C>>::fetch_cold_cycle$", r"Configuration::CYCLE_STRATEGY"), (r"^function::maybe_changed_after::maybe_changed_after_cold_cycle$", r"^\$3$")):
        b = cx.fn(path)
        eng = OnlyIf(cx.facts, b)
        lit = VariantIn(strat, {"Panic"}, desc="strategy is Panic")
        edges = eng.establishing_edges(lit)
        cx.require(edges, "%s: no branch on the cycle strategy found" % b.short)
        bad = []
        dead = cx.facts.dead_end_blocks(b)
        for (x, s, lab) in edges:
            reach = b.reachable(s, "normal", cut_blocks=dead)
            bad += [r for r in b.return_blocks() if r in reach and r not in dead]
        cx.check(not bad, "the Panic arm diverges (no path to a return)", Site(b, list(edges)[0][0], len(b.blocks[list(edges)[0][0]]["stmts"])), {"returns_reached": bad}, key="panic-arm-diverges")
        others = VariantIn(strat, {"Fixpoint", "FallbackImmediate"})
        for r in b.return_blocks():
            cx.check(r not in b.reachable(0, "normal", cut_edges=eng.establishing_edges(others), cut_blocks=dead), "a value/verdict is returned only for Fixpoint / FallbackImmediate", Site(b, r, 0), key="ret-only-recovering")


@ob("C14.4", ["C14", "C13", "C12", "C01"], "a cycle hit while VALIDATING an old memo means the cycle is new in this revision: answering `unchanged` validates a memo computed when there was no cycle (its value ignores the fallback / fixpoint)", kind="FLOW (verdict table)")
def c14_4(cx):
    """maybe_changed_after_cold_cycle: every value returned (for Fixpoint and FallbackImmediate alike) is VerifyResult::changed(); maybe_changed_after_cold::inner maps ClaimResult::Cycle to that verdict."""
    b = cx.fn(r"^function::maybe_changed_after::maybe_changed_after_cold_cycle$")
    dead = cx.facts.dead_end_blocks(b)
    from .c01_reuse import value_defs
    n = 0
    for site, kind, node in value_defs(b, 0):
        if site.bb in dead:
            continue
        n += 1
        o = b._origin_def(site, kind, node, 0, None, ())
        cx.flow(b, o, [r"^function::maybe_changed_after::VerifyResult::changed\(\)$", r"^VerifyResult::Changed\{\}$"], [r"unchanged", r"Unchanged"], "a new cycle met during validation is reported as Changed", site)
    cx.require(n >= 1, "verdict of maybe_changed_after_cold_cycle")
    i = cx.fn(r"^function::maybe_changed_after::<impl function::IngredientImpl<C>>::maybe_changed_after_cold::inner$")
    cc = cx.one_call(i, r"maybe_changed_after_cold_cycle$", "cycle verdict in maybe_changed_after_cold::inner")
    cx.only_if(i, cc, VariantIn(r"SyncTable::try_claim\(", {"Cycle"}, desc="try_claim == Cycle"), "the cycle verdict is used exactly for ClaimResult::Cycle")
    cx.flow(i, cx.arg(cc, 2), [r"CYCLE_STRATEGY|^\$\d+$"], [r"CycleRecoveryStrategy::(Fixpoint|Panic|FallbackImmediate)\{"], "with the function's own strategy", cc)


@ob("C14.3", ["C14", "C16", "C17"], also=["C03"], nec="a Running result that is not waited for and retried (or a Cycle result that executes anyway) hangs or re-enters the running function", kind="TABLE")
def c14_3(cx):
    """fetch_cold and maybe_changed_after_cold::inner: Claimed -> verify/execute; Running -> block_on then retry (None / Retry); Cycle -> cycle handler. refresh_memo / maybe_changed_after loop until a result is produced. Running::block_on: Panicked -> Cancelled::PropagatedPanic.throw()."""
    f = cx.fn(r"^function::fetch::<impl function::IngredientImpl<C>>::fetch_cold$")
    claim = r"SyncTable::try_claim\("
    bo = cx.one_call(f, r"^runtime::Running::<'_>::block_on$", "block_on in fetch_cold")
    cx.only_if(f, bo, VariantIn(claim, {"Running"}), "fetch_cold blocks exactly on ClaimResult::Running")
    cy = cx.one_call(f, r"fetch_cold_cycle$", "fetch_cold_cycle call")
    cx.only_if(f, cy, VariantIn(claim, {"Cycle"}), "the cycle handler runs exactly on ClaimResult::Cycle")
    ex = cx.one_call(f, r"execute::<impl function::IngredientImpl<C>>::execute$", "execute in fetch_cold")
    cx.only_if(f, ex, VariantIn(claim, {"Claimed"}), "execute only with a successful claim")
    cx.flow(f, cx.arg(ex, 2), [r"try_claim\(.*\)@Claimed\.0$"], [], "execute consumes the guard just claimed", ex)
    # after blocking: return None (retry)
    reach = f.reachable(bo.node()["t"], "normal")
    nones = [s for s in cx.ret_sites(f, "None")]
    cx.check(any(s.bb in reach for s in nones) and not any(s.bb in reach for s in cx.ret_sites(f, "Some")), "after waiting fetch_cold returns None (the caller retries)", bo, key="retry-after-block")
    i = cx.fn(r"^function::maybe_changed_after::<impl function::IngredientImpl<C>>::maybe_changed_after_cold::inner$")
    bo = cx.one_call(i, r"^runtime::Running::<'_>::block_on$", "block_on in maybe_changed_after_cold::inner")
    cx.only_if(i, bo, VariantIn(claim, {"Running"}), "inner blocks exactly on ClaimResult::Running")
    reach = i.reachable(bo.node()["t"], "normal")
    with cx.only("C14", "C16", "C17", "C03"):
        # answering Changed after the wait (instead of retrying) discards the backdating done by the other thread (C03)
        cx.check(all(s.bb not in reach for s in i.aggregates(r"ColdResult$", "Verified") + i.aggregates(r"ColdResult$", "Reexecute")) and any(s.bb in reach for s in i.aggregates(r"ColdResult$", "Retry")), "after waiting inner returns Retry", bo, key="retry-after-block-mca")
    cyc = cx.one_call(i, r"maybe_changed_after_cold_cycle$", "cycle handler in inner")
    cx.only_if(i, cyc, VariantIn(claim, {"Cycle"}), "the cycle handler runs exactly on ClaimResult::Cycle")
    r = cx.fn(r"^function::fetch::<impl function::IngredientImpl<C>>::refresh_memo$")
    cx.check(bool(r.back_edges()), "refresh_memo loops until fetch_hot / fetch_cold yields a memo", body=r, key="refresh-loop")
    for s in cx.ret_sites(r, None) or []:
        pass
    rb = cx.fn(r"^runtime::Running::<'_>::block_on$")
    th = cx.one_call(rb, r"^cancelled::Cancelled::throw$", "throw in Running::block_on")
    res = r"DependencyGraph::block_on\("
    cx.only_if(rb, th, VariantIn(res, {"Panicked"}), "a waiter throws only if the owner panicked")
    cx.flow(rb, cx.arg(th, 0), [r"^Cancelled::PropagatedPanic"], [r"Cancelled::(Local|PendingWrite)"], "the waiter throws Cancelled::PropagatedPanic", th)
    ret_cases(cx, rb, [(r"^const:1$", [VariantIn(res, {"Completed"})], "true"), (r"^const:0$", [VariantIn(res, {"Cancelled"})], "false")], [], "Running::block_on")


# ---------------------------------------------------------------------------------------------
# C19


@ob("C19.1", ["C19", "C16"], "releasing the query's sync guard before the edge exists lets the owner finish and wake nobody; waiting without re-checking the result slot misses a wake-up that already happened", kind="ORDER")
def c19_1(cx):
    """DependencyGraph::block_on: add_edge precedes drop(query_mutex_guard) precedes the first cvar.wait; every wait is preceded (in the loop) by wait_results.remove(&from_id); returns only the removed result; the graph guard is never dropped between add_edge and a wait."""
    b = cx.fn(DG + r"block_on$")
    ae = cx.one_call(b, DG + r"add_edge$", "add_edge")
    dr = cx.one_call(b, r"^std::mem::drop$", "drop(query_mutex_guard)")
    wt = cx.one_call(b, r"EdgeCondvar::wait$", "cvar.wait")
    rm = cx.one_call(b, r"HashMap::<K, V, S, A>::remove$|HashMap::<K, V, S>::remove$", "wait_results.remove")
    cx.order(ae, dr, "the edge is added before the query's sync guard is released")
    cx.order(dr, wt, "the sync guard is released before parking")
    cx.flow(b, cx.arg(dr, 0), [r"^\$5$"], [r"^\$1$"], "what is dropped is the query mutex guard (not the graph guard)", dr)
    cx.order(rm, wt, "the result slot is checked before every wait")
    cx.check(b.reaches(wt, rm), "after a wake-up the result slot is checked again (loop)", wt, key="recheck-loop")
    a = cx.args(rm)
    cx.flow(b, a[0], [r"\.wait_results$"], [], "checks wait_results", rm)
    cx.flow(b, a[1], [r"^\$2$"], [], "for this thread's id", rm)
    a = cx.args(ae)
    cx.check(a[1] == "$2" and a[2] == "$3" and a[3] == "$4", "add_edge(from_id, database_key, to_id) forwards the arguments", ae, {"args": a[1:4]}, key="add-edge-args")
    gdrops = [d for d in b.drops(r"MutexGuard<'_, .*DependencyGraph>|MutexGuard<'_, parking_lot::RawMutex, runtime::dependency_graph::DependencyGraph>") if b.reaches(ae, d) and b.reaches(d, wt)]
    cx.check(not gdrops, "the graph guard is not dropped between add_edge and wait", gdrops[0] if gdrops else wt, key="dg-held")
    ret_cases(cx, b, [(r"remove\(.*wait_results, \$2\)@Some\.0$", [], "the result removed for this thread")], [], "block_on result")
    e = cx.fn(DG + r"add_edge$")
    ins = cx.one_call(e, r"^runtime::dependency_graph::Edges::insert$", "edges.insert")
    cx.flow(e, cx.arg(ins, 1), [r"^\$2$"], [], "the edge is keyed by the waiting thread", ins)
    cx.flow(e, cx.arg(ins, 2), [r"^runtime::dependency_graph::edge::Edge::new\(\$4, \$5\)$"], [], "the edge points at the thread waited for", ins)
    cx.must_call(e, r"Edges::insert$")
    ps = cx.some_calls(e, r"SmallVec::<A>::push$", 1, "query_dependents push")
    cx.flow(e, cx.arg(ps[0], 1), [r"^\$2$"], [], "the waiter is registered as a dependent of the key", ps[0])
    cx.flow(e, cx.arg(ps[0], 0), [r"entry\(.*\$1\.query_dependents, \$3\)"], [], "under the key waited for", ps[0])


@ob("C19.2", ["C19", "C16"], "a waiter notified before its result is stored finds nothing, waits again and is never notified a second time (lost wake-up)", kind="ORDER+WRITERS")
def c19_2(cx):
    """unblock_runtime: edges.remove(id) precedes wait_results.insert(id, result) precedes edge.notify(); no other body in the crate inserts into wait_results or calls Edge::notify; unblock_runtimes_blocked_on removes the key's dependents and unblocks each."""
    b = cx.fn(DG + r"unblock_runtime$")
    rm = cx.one_call(b, r"^runtime::dependency_graph::Edges::remove$", "edges.remove")
    ins = cx.one_call(b, r"HashMap::<K, V, S, A>::insert$|HashMap::<K, V, S>::insert$", "wait_results.insert")
    nt = cx.one_call(b, r"edge::Edge::notify$", "edge.notify")
    cx.order(rm, ins, "the edge is removed before the result is published")
    cx.order(ins, nt, "the result is stored before the waiter is notified")
    a = cx.args(ins)
    cx.flow(b, a[0], [r"^\$1\.wait_results$"], [], "stores into wait_results", ins)
    cx.check(a[1] == "$2" and a[2] == "$3", "stores (id, wait_result) as given", ins, {"args": a}, key="insert-args")
    cx.flow(b, cx.arg(nt, 0), [r"Edges::remove\(\$1\.edges, \$2\)"], [], "notifies the edge of the same thread", nt)
    for rx, what in ((r"edge::Edge::notify$", "Edge::notify"), (r"Condvar::notify_(one|all)$", "Condvar::notify")):
        for s in cx.facts.call_sites_of(rx):
            if s.body.file.endswith("dependency_graph.rs"):
                ok = s.body.path in ("runtime::dependency_graph::DependencyGraph::unblock_runtime", "runtime::dependency_graph::edge::Edge::notify")
                cx.check(ok, "%s is called only from unblock_runtime (after the result is stored)" % what, s, key="notify-writer " + s.body.path)
    for body in cx.facts.all_bodies():
        if body is b:
            continue
        for s in body.calls(r"HashMap::<K, V, S(, A)?>::insert$"):
            if "wait_results" in cx.arg(s, 0):
                cx.check(False, "wait_results is written only by unblock_runtime", s, key="wait_results-writer " + body.path)
    u = cx.fn(DG + r"unblock_runtimes_blocked_on$")
    r = cx.one_call(u, r"HashMap::<K, V, S(, A)?>::remove$", "query_dependents.remove")
    cx.flow(u, cx.arg(r, 0), [r"^\$1\.query_dependents$"], [], "takes the dependents of the key", r)
    cx.flow(u, cx.arg(r, 1), [r"^\$2$"], [], "of the completed key", r)
    c = cx.one_call(u, DG + r"unblock_runtime$", "unblock_runtime per dependent")
    cx.flow(u, cx.arg(c, 2), [r"^\$3$"], [], "each dependent receives the completion's wait result", c)


@ob("C19.4", ["C19", "C16"], "a waiter that blocks without anyone_waiting being set is skipped by release(): it is never woken", kind="ORDER+ONLYIF")
def c19_4(cx):
    """try_claim / peek_claim: `anyone_waiting = true` precedes Runtime::block, under the same sync guard (which is passed into block); *_transferred: anyone_waiting = true before returning Err(owner); release() skips the wake-ups only if !anyone_waiting; mark_as_transfer_target sets anyone_waiting and is_transfer_target."""
    for name in ("try_claim", "peek_claim"):
        b = cx.fn(SY + r"SyncTable::%s$" % name)
        blk = cx.one_call(b, RT + r"block$", "Runtime::block in " + name)
        st = [x for x in cx.stores(b) if x[1].endswith(".anyone_waiting")]
        if len(st) < 1:
            cx.check(False, "%s: anyone_waiting is not set before blocking" % name, blk, key="aw-store-missing " + name)
            continue
        for s, po, vo in st:
            cx.flow(b, vo, [r"^const:1$"], [r"^const:0$"], "%s: anyone_waiting := true" % name, s)
        cx.check(any(b.site_dominates(s, blk) for s, _, _ in st), "%s: anyone_waiting is set before Runtime::block" % name, blk, key="aw-before-block " + name)
        lk = cx.one_call(b, LOCK, "sync lock in " + name)
        cx.flow(b, cx.arg(blk, 3), [r"^parking_lot::lock_api::Mutex::<R, T>::lock\("], [], "%s: the sync guard itself is handed to block (same critical section)" % name, blk)
        for s, _, _ in st:
            cx.check(b.site_dominates(lk, s) and guard_live_at(b, lk, s), "%s: the flag is set under the sync lock" % name, s, key="aw-locked " + name)
        cx.flow(b, cx.arg(blk, 2), [r"OccupiedEntry::<'a, T, A>::get\(.*\)\.id@Thread\.0$"], [], "%s: blocks on the thread recorded as owner" % name, blk)
    for name in ("try_claim_transferred", "peek_claim_transferred"):
        b = cx.fn(SY + r"SyncTable::%s$" % name)
        errs = cx.ret_sites(b, "Err")
        cx.sites(errs, 1, "Err(owner) in " + name)
        st = [x for x in cx.stores(b) if x[1].endswith(".anyone_waiting") and x[2] == "const:1"]
        for e in errs:
            cx.check(any(b.site_dominates(s, e) for s, _, _ in st), "%s: anyone_waiting is set before handing out the owner to block on" % name, e, key="aw-before-err " + name)
            cx.only_if(b, e, VariantIn(r"Runtime::block_transferred\(", {"OwnedBy"}), "%s: Err only if another thread owns the transferred query" % name)
    r = cx.fn(SY + r"ClaimGuard::<'me>::release$")
    ub = cx.one_call(r, RT + r"unblock_queries_blocked_on$", "unblock_queries_blocked_on in release")
    cx.skipped_only_if(r, ub, BoolIs(r"^\$2\.anyone_waiting$", False, desc="!anyone_waiting"), "release skips the wake-up only if nobody is waiting")
    a = cx.args(ub)
    cx.flow(r, a[1], [r"ClaimGuard::<'me>::database_key_index\(\$1\)$"], [], "wakes the waiters of this key", ub)
    cx.flow(r, a[2], [r"^\$3$"], [r"WaitResult::"], "with the wait result given", ub)
    m = cx.fn(SY + r"SyncTable::mark_as_transfer_target$")
    cb = cx.closure_passed_to(m, r"^std::option::Option::<T>::map$")
    flags = {x[1].split(".")[-1]: x[2] for x in cx.stores(cb)}
    cx.check(flags.get("anyone_waiting") == "const:1" and flags.get("is_transfer_target") == "const:1", "mark_as_transfer_target sets anyone_waiting and is_transfer_target", None, {"stores": flags}, key="mark-flags", body=cb)


@ob("C19.5", ["C19", "C14", "C22", "C16"], also=["C21"], nec="a SyncState removed (or a guard dropped) without release() leaves its waiters parked forever", kind="MUSTCALL+GUARDTYPE")
def c19_5(cx):
    """Every OccupiedEntry::remove of a SyncState in function/sync.rs flows into ClaimGuard::release; Drop for ClaimGuard calls release_panicking when thread::panicking() else drop_impl; release_panicking removes the entry and releases with Cancelled iff local cancellation else Panicked; drop_impl releases with Completed (Default), release_self (SelfOnly) or transfer (TransferTo); ClaimGuard::drop(self) = drop_impl + forget."""
    n = 0
    for b in cx.facts.all_bodies():
        if not b.file.endswith("function/sync.rs"):
            continue
        for s in b.calls(r"OccupiedEntry::<'a, T, A>::remove$"):
            n += 1
            rel = [c for c in b.calls(SY + r"ClaimGuard::<'me>::release$") if re.search(r"OccupiedEntry::<'a, T, A>::remove\(", cx.arg(c, 1))]
            cx.check(bool(rel) and all(b.reaches(s, c) for c in rel), "the removed SyncState is handed to release()", s, key="remove->release " + b.path)
            # on every normal path after the removal a release follows
            reach = b.reachable(s.node()["t"], "normal", cut_blocks={c.bb for c in rel})
            cx.check(not any(r in reach for r in b.return_blocks()), "no return after removing the state without release()", s, key="remove-mustrelease " + b.path)
    cx.require(n >= 4, "expected >= 4 SyncState removals, found %d" % n)
    d = cx.facts.drop_impl(r"^function::sync::ClaimGuard<'_>$")
    cx.require(d is not None, "Drop impl for ClaimGuard")
    rp = cx.one_call(d, SY + r"ClaimGuard::<'me>::release_panicking$", "release_panicking in Drop")
    di = cx.one_call(d, SY + r"ClaimGuard::<'me>::drop_impl$", "drop_impl in Drop")
    pan = CallIs(r"^std::thread::panicking$", True)
    cx.only_if(d, rp, pan, "release_panicking only while unwinding")
    cx.skipped_only_if(d, rp, CallIs(r"^std::thread::panicking$", False), "while unwinding the claim is released with a panic/cancel result")
    cx.skipped_only_if(d, di, pan, "a normal drop runs drop_impl")
    p = cx.fn(SY + r"ClaimGuard::<'me>::release_panicking$")
    rel = cx.one_call(p, SY + r"ClaimGuard::<'me>::release$", "release in release_panicking")
    cx.must_call(p, SY + r"ClaimGuard::<'me>::release$")
    w = cx.arg(rel, 2)
    with cx.only("C19", "C14", "C21", "C22"):
        cx.flow(p, w, [r"^phi\{WaitResult::Cancelled\{\} \| WaitResult::Panicked\{\}\}$"], [r"WaitResult::Completed"], "an unwinding owner reports Cancelled or Panicked, never Completed", rel)
        for s in p.aggregates(r"WaitResult$", "Cancelled"):
            cx.only_if(p, s, CallIs(r"ZalsaLocal::should_trigger_local_cancellation$", True), "Cancelled only for a local cancellation")
        for s in p.aggregates(r"WaitResult$", "Panicked"):
            cx.only_if(p, s, CallIs(r"ZalsaLocal::should_trigger_local_cancellation$", False), "Panicked otherwise")
    i = cx.fn(SY + r"ClaimGuard::<'me>::drop_impl$")
    mode = r"^\$1\.mode$"
    for rx, var in ((SY + r"ClaimGuard::<'me>::release$", "Default"), (SY + r"ClaimGuard::<'me>::release_self$", "SelfOnly"), (SY + r"ClaimGuard::<'me>::transfer$", "TransferTo")):
        c = cx.one_call(i, rx, rx.split("::")[-1] + " in drop_impl")
        cx.only_if(i, c, VariantIn(mode, {var}), "drop_impl: %s exactly for ReleaseMode::%s" % (rx.split("::")[-1].rstrip("$"), var))
    rel = cx.one_call(i, SY + r"ClaimGuard::<'me>::release$", "release in drop_impl")
    cx.flow(i, cx.arg(rel, 2), [r"^WaitResult::Completed\{\}$"], [r"WaitResult::(Panicked|Cancelled)"], "a normal completion reports Completed", rel)
    cx.must_call(i, r"ClaimGuard::<'me>::(release|release_self|transfer)$", "drop_impl releases / transfers on every path")
    g = cx.fn(SY + r"ClaimGuard::<'me>::drop$")
    di = cx.one_call(g, SY + r"ClaimGuard::<'me>::drop_impl$", "drop_impl in ClaimGuard::drop")
    fg = cx.one_call(g, r"^std::mem::forget$", "forget in ClaimGuard::drop")
    cx.order(di, fg, "the guard is forgotten only after it was released explicitly")
    cx.flow(g, g.origin_local(0), [r"drop_impl\(\$1\)$"], [r"^const:"], "drop() reports whether the release blocked on a transfer")
    # every mem::forget of a ClaimGuard in the crate is preceded by drop_impl
    for s in cx.facts.call_sites_of(r"^std::mem::forget$"):
        if "ClaimGuard" in (s.node().get("atys") or [""])[0]:
            ok = any(s.body.site_dominates(c, s) for c in s.body.calls(SY + r"ClaimGuard::<'me>::drop_impl$"))
            cx.check(ok, "mem::forget(ClaimGuard) only after drop_impl", s, key="forget-claimguard " + s.body.path)
    rs = cx.fn(SY + r"ClaimGuard::<'me>::release_self$")
    rel = cx.one_call(rs, SY + r"ClaimGuard::<'me>::release$", "release in release_self")
    cx.skipped_only_if(rs, rel, BoolIs(r"\.claimed_twice$", True, desc="claimed_twice"), "release_self keeps the entry only for a double claim (ownership goes back to Transferred)")


# ---------------------------------------------------------------------------------------------
# C17


@ob("C17.1", ["C17", "C16", "C14"], "a ClaimGuard that exists without its SyncState entry (or an entry claimed twice) lets two threads execute the same key", kind="WRITERS+ONLYIF")
def c17_1(cx):
    """ClaimGuard aggregates exist only in try_claim (Vacant arm, after vacant_entry.insert) and try_claim_transferred (ImTheOwner+Allow after `*id = Thread(me)`; Released after the state reset); ClaimResult::Claimed(guard) only there; an Occupied entry owned by a Thread never yields Claimed; execute takes the guard by value."""
    n = 0
    for b in cx.facts.all_bodies():
        for s in b.aggregates(r"^function::sync::ClaimGuard$"):
            n += 1
            if re.search(SY + r"SyncTable::try_claim$", b.path):
                ins = cx.one_call(b, r"VacantEntry::<'a, T, A>::insert$", "vacant_entry.insert")
                cx.order(ins, s, "the guard is built only after the SyncState was inserted")
                cx.only_if(b, s, VariantIn(r"HashTable::<T, A>::entry\(", {"Vacant"}), "a fresh claim only for a vacant entry (an entry owned by a thread is never claimed)")
                o = cx.arg(ins, 1)
                cx.flow(b, o, [r"^SyncState\{key: \$4, id: SyncOwner::Thread\{0: std::thread::Thread::id\(std::thread::current\(\)\)\}, anyone_waiting: const:0, is_transfer_target: const:0, claimed_twice: const:0\}$"], [r"id: SyncOwner::Transferred"], "the inserted state names this thread as owner of this key", ins)
                lk = cx.one_call(b, LOCK, "sync lock")
                cx.check(b.site_dominates(lk, s) and guard_live_at(b, lk, s), "the guard is built under the shard lock", s, key="claim-locked")
            elif re.search(SY + r"SyncTable::try_claim_transferred$", b.path):
                res = r"Runtime::block_transferred\("
                cx.only_if(b, s, VariantIn(res, {"ImTheOwner", "Released"}), "a transferred query is claimed only by its owner or after release")
                st = [x for x in cx.stores(b) if re.search(r"(\.id$|OccupiedEntry::<'a, T, A>::get_mut\(.*\)$)", x[1])]
                cx.check(any(b.site_dominates(x[0], s) for x in st), "the SyncState is updated to this thread before the guard is built", s, {"stores": [x[1][-60:] for x in st]}, key="state-before-guard")
            else:
                cx.check(False, "ClaimGuard constructed outside try_claim / try_claim_transferred", s, key="claimguard-writer " + b.path)
    cx.require(n >= 3, "expected >= 3 ClaimGuard construction sites, found %d" % n)
    t = cx.fn(SY + r"SyncTable::try_claim_transferred$")
    res = r"Runtime::block_transferred\("
    for s in t.aggregates(r"^function::sync::ClaimGuard$"):
        o = t._origin_def(s, "assign", s.node(), 0, None, ())
        if "ReleaseMode::SelfOnly" in o:
            cx.only_if(t, s, VariantIn(res, {"ImTheOwner"}), "SelfOnly re-claim only by the owner")
            cx.only_if(t, s, CallIs(r"Reentrancy::is_allow$", True), "SelfOnly re-claim only with Reentrancy::Allow")
        else:
            cx.only_if(t, s, VariantIn(res, {"Released"}), "a Default claim of a transferred entry only after it was released")
    e = cx.fn(r"^function::execute::<impl function::IngredientImpl<C>>::execute$")
    cx.check(any(t_ == "function::sync::ClaimGuard<'db>" for t_ in e.info["inputs"]), "execute takes the ClaimGuard by value", body=e, detail={"inputs": e.info["inputs"]}, key="execute-takes-guard")
    sh = cx.fn(SY + r"SyncTable::try_claim$")
    lk = cx.one_call(sh, LOCK, "lock")
    cx.flow(sh, cx.arg(lk, 0), [r"^function::sync::SyncTable::shard_for\(\$1, <FxBuildHasher as std::hash::BuildHasher>::hash_one\((FxBuildHasher\{\}|…), \$4\)\)\.syncs$"], [], "the shard depends only on the key")
    # block_transferred: ImTheOwner iff owner == me or owner waits on me
    bt = cx.fn(RT + r"block_transferred$")
    owner = r"thread_id_of_transferred_query\(.*\)@Some\.0$"
    for s in bt.aggregates(r"BlockTransferredResult$", "ImTheOwner"):
        cx.only_if_any(bt, s, [Cmp(owner, "==", r"^\$3$"), CallIs(DG + r"depends_on$", True, [None, owner, r"^\$3$"])], "ImTheOwner only if the owner is this thread or (transitively) waits on it")
    for s in bt.aggregates(r"BlockTransferredResult$", "Released"):
        cx.only_if(bt, s, VariantIn(r"thread_id_of_transferred_query\(", {"None"}), "Released only if the transfer chain no longer resolves")


@ob("C17.3", ["C17", "C16"], "verifying (or handing to execute) a memo loaded BEFORE the claim misses the result a concurrent owner just inserted: the function body runs a second time in the same revision", kind="ORDER")
def c17_3(cx):
    """fetch_cold and maybe_changed_after_cold::inner load the memo after the successful claim (the load is control-dependent on ClaimResult::Claimed) and verify_memo precedes execute / Reexecute."""
    f = cx.fn(r"^function::fetch::<impl function::IngredientImpl<C>>::fetch_cold$")
    tc = cx.one_call(f, SY + r"SyncTable::try_claim$", "try_claim in fetch_cold")
    claim = r"SyncTable::try_claim\("
    ld = cx.one_call(f, r"get_memo_from_table_for$", "memo load in fetch_cold")
    cx.order(tc, ld, "the memo is (re)loaded after try_claim")
    cx.only_if(f, ld, VariantIn(claim, {"Claimed"}), "the memo is loaded under the claim")
    ex = cx.one_call(f, r"execute::<impl function::IngredientImpl<C>>::execute$", "execute")
    cx.flow(f, cx.arg(ex, 3), [r"get_memo_from_table_for\(\$1, \$2, \$5, \$6\)$"], [], "execute receives the memo loaded under the claim", ex)
    cx.flow(f, cx.arg(tc, 4), [r"^Reentrancy::Allow"], [], "fetch claims with Reentrancy::Allow", tc)
    i = cx.fn(r"^function::maybe_changed_after::<impl function::IngredientImpl<C>>::maybe_changed_after_cold::inner$")
    tc = cx.one_call(i, SY + r"SyncTable::try_claim$", "try_claim in inner")
    ld = cx.one_call(i, r"MemoSlot::<'db>::get_erased$|get_erased$", "memo load in inner")
    cx.order(tc, ld, "the memo is loaded after try_claim")
    cx.only_if(i, ld, VariantIn(claim, {"Claimed"}), "the memo is loaded under the claim")
    vm = cx.one_call(i, r"verify_memo$", "verify_memo in inner")
    cx.flow(i, cx.arg(vm, 0), [r"ErasedMemo::<'memo>::header\(.*get_erased\(\$5\)@Some\.0\)$|header\(.*get_erased"], [], "the memo verified is the one loaded under the claim", vm)
    cx.flow(i, cx.arg(tc, 4), [r"^Reentrancy::Deny"], [], "validation claims with Reentrancy::Deny", tc)
    for s in i.aggregates(r"ColdResult$", "Reexecute"):
        o = i._origin_def(s, "assign", s.node(), 0, None, ())
        cx.flow(i, o, [r"claim_guard: .*try_claim\(.*\)@Claimed\.0, old_memo: .*get_erased\(\$5\)@Some\.0\}$"], [], "Reexecute carries the guard and the memo loaded under it", s)


# ---------------------------------------------------------------------------------------------
# C18


@ob("C18.1", ["C18", "C13"], "a cycle participant that releases its lock lets another thread enter the same cycle from a different head: two threads iterate competing copies", kind="MUSTCALL+FLOW")
def c18_1(cx):
    """complete_cycle_participant and the nested branch of try_complete_cycle_head set ReleaseMode::TransferTo(outer_cycle); execute_maybe_iterate starts with ReleaseMode::Default."""
    p = cx.fn(r"^function::execute::complete_cycle_participant$")
    c = cx.one_call(p, SY + r"ClaimGuard::<'me>::set_release_mode$", "set_release_mode in complete_cycle_participant")
    cx.must_call(p, SY + r"ClaimGuard::<'me>::set_release_mode$")
    cx.flow(p, cx.arg(c, 1), [r"^ReleaseMode::TransferTo\{0: \$4\}$"], [r"ReleaseMode::(Default|SelfOnly)"], "participant: TransferTo(outer_cycle)", c)
    h = cx.fn(r"^function::execute::try_complete_cycle_head$")
    c = cx.one_call(h, SY + r"ClaimGuard::<'me>::set_release_mode$", "set_release_mode in try_complete_cycle_head")
    cx.flow(h, cx.arg(c, 1), [r"^ReleaseMode::TransferTo\{0: \$5@Some\.0\}$"], [r"ReleaseMode::(Default|SelfOnly)"], "nested head: TransferTo(outer_cycle)", c)
    outer_some = VariantIn(r"^\$5$", {"Some"}, desc="outer_cycle is Some")
    cx.only_if(h, c, outer_some, "transfer only if there is an outer cycle")
    # Ok(completed) while outer cycle exists must have set the mode: every Ok return reachable under outer_some passes the call
    eng = OnlyIf(cx.facts, h)
    for s in cx.ret_sites(h, "Ok"):
        if eng.guarded(s, outer_some):
            cx.check(h.site_dominates(c, s), "a nested head returns Ok only after arranging the transfer", s, key="nested-ok-after-transfer")
    m = cx.fn(r"^function::execute::<impl function::IngredientImpl<C>>::execute_maybe_iterate$")
    c = cx.some_calls(m, SY + r"ClaimGuard::<'me>::set_release_mode$", 1, "set_release_mode in execute_maybe_iterate")[0]
    cx.flow(m, cx.arg(c, 1), [r"^ReleaseMode::Default\{\}$"], [r"TransferTo|SelfOnly"], "execute_maybe_iterate starts with ReleaseMode::Default", c)
    ex = cx.some_calls(m, r"execute_query$", 1, "execute_query in execute_maybe_iterate")[0]
    cx.order(c, ex, "the release mode is reset before the body runs")
    # ... and never again afterwards: a participant (of either cycle strategy) that resets the mode chosen by
    # complete_cycle_participant / try_complete_cycle_head releases its lock while the outer head still runs
    for rs in m.calls(SY + r"ClaimGuard::<'me>::set_release_mode$"):
        cx.check(not m.reaches(ex, rs), "the release mode chosen when the query completes (TransferTo for participants) is not overridden in execute_maybe_iterate", rs, key="no-late-reset")
    s = cx.fn(SY + r"ClaimGuard::<'me>::set_release_mode$")
    st = cx.stores(s, r"^\$1\.mode$")
    cx.sites(st, 1, "store to mode")
    cx.flow(s, st[0][2], [r"^\$2$"], [], "set_release_mode stores the mode", st[0][0])


@ob("C18.2", ["C18", "C17", "C14"], "a transferred lock claimed by a thread that is not on the owner's critical path runs the participant concurrently with its cycle head", kind="TABLE")
def c18_2(cx):
    """try_claim_transferred and peek_claim_transferred agree arm by arm: ImTheOwner+Allow -> claim; ImTheOwner -> Cycle{inner:true}; OwnedBy -> block; Released -> claim."""
    res = r"Runtime::block_transferred\("
    for name in ("try_claim_transferred", "peek_claim_transferred"):
        b = cx.fn(SY + r"SyncTable::%s$" % name)
        cyc = [s for s in b.aggregates(r"ClaimResult$", "Cycle")]
        cx.sites(cyc, 1, "Cycle result in " + name)
        for s in cyc:
            cx.only_if(b, s, VariantIn(res, {"ImTheOwner"}), "%s: Cycle only for ImTheOwner" % name)
            cx.only_if(b, s, CallIs(r"Reentrancy::is_allow$", False), "%s: Cycle only with Reentrancy::Deny" % name)
            o = b._origin_def(s, "assign", s.node(), 0, None, ())
            cx.flow(b, o, [r"inner: const:1"], [r"inner: const:0"], "%s: the cycle is flagged inner" % name, s)
        for s in b.aggregates(r"ClaimResult$", "Claimed"):
            cx.only_if(b, s, VariantIn(res, {"ImTheOwner", "Released"}), "%s: Claimed only for the owner or a released entry" % name)
            cx.only_if_any(b, s, [CallIs(r"Reentrancy::is_allow$", True), VariantIn(res, {"Released"})], "%s: the owner re-claims only with Reentrancy::Allow" % name)
        bt = cx.one_call(b, RT + r"block_transferred$", "block_transferred in " + name)
        cx.flow(b, cx.arg(bt, 2), [r"^std::thread::Thread::id\(std::thread::current\(\)\)$"], [], "%s asks on behalf of the current thread" % name, bt)
    t = cx.fn(SY + r"SyncTable::try_claim_transferred$")
    st = {x[1].split(".")[-1]: x for x in cx.stores(t) if re.search(r"\.(id|claimed_twice)$", x[1])}
    cx.check("id" in st and st["id"][2].startswith("SyncOwner::Thread{0: std::thread::Thread::id(std::thread::current())"), "re-claim records this thread as owner", st.get("id", (None,))[0], key="reclaim-owner", body=t)
    cx.check("claimed_twice" in st and st["claimed_twice"][2] == "const:1", "re-claim sets claimed_twice", st.get("claimed_twice", (None,))[0], key="reclaim-twice", body=t)
    ia = cx.fn(SY + r"Reentrancy::is_allow$")
    cx.returns_only_if(ia, True, VariantIn(r"^\$1$", {"Allow"}))
    cx.returns_only_if(ia, False, VariantIn(r"^\$1$", {"Deny"}))


@ob("C18.3", ["C18", "C19"], "a transfer whose target is not marked (or whose state is updated outside the critical section that performs the graph transfer) lets the target finish without waking the transferred query's waiters", kind="ORDER")
def c18_3(cx):
    """ClaimGuard::transfer: mark_as_transfer_target precedes locking the own shard; id := Transferred and claimed_twice := false happen under that guard, which is then passed into Runtime::transfer_lock; on a missing target the entry is removed and released with Panicked."""
    b = cx.fn(SY + r"ClaimGuard::<'me>::transfer$")
    mk = cx.one_call(b, SY + r"SyncTable::mark_as_transfer_target$", "mark_as_transfer_target")
    tl = cx.one_call(b, RT + r"transfer_lock$", "Runtime::transfer_lock")
    cx.order(mk, tl, "the target is marked before the lock is transferred")
    locks = b.calls(LOCK)
    main = [l for l in locks if b.site_dominates(l, tl)]
    cx.require(len(main) == 1, "expected one sync lock dominating transfer_lock")
    cx.order(mk, main[0], "the target's shard is locked and released before the own shard is locked (never two sync guards)")
    a = cx.args(tl)
    cx.flow(b, a[4], [r"^parking_lot::lock_api::Mutex::<R, T>::lock\(\$1\.shard\.syncs\)$"], [], "the own shard's guard is handed to transfer_lock", tl)
    cx.flow(b, a[2], [r"^\$2$"], [], "ownership goes to the requested new owner", tl)
    cx.flow(b, a[3], [r"mark_as_transfer_target\(.*\)@Some\.0$"], [], "with the owner id read when marking the target", tl)
    st = [x for x in cx.stores(b) if re.search(r"\.(id|claimed_twice)$", x[1])]
    ids = [x for x in st if x[1].endswith(".id")]
    cx.check(len(ids) == 1 and ids[0][2].startswith("SyncOwner::Transferred"), "own state: id := Transferred", (ids or [(None,)])[0][0], key="own-transferred", body=b)
    for s, po, vo in st:
        cx.check(b.site_dominates(main[0], s) and b.site_dominates(s, tl), "own state is updated under the guard that is passed to transfer_lock", s, key="state-under-guard " + po.split(".")[-1])
    rel = cx.one_call(b, SY + r"ClaimGuard::<'me>::release$", "release on a missing target")
    cx.only_if(b, rel, VariantIn(r"mark_as_transfer_target\(", {"None"}), "the fallback release only if the target is not locked")
    cx.flow(b, cx.arg(rel, 2), [r"^WaitResult::Panicked\{\}$"], [r"Completed"], "a failed transfer wakes waiters with Panicked", rel)
    rt = cx.fn(RT + r"transfer_lock$")
    c = cx.one_call(rt, DG + r"transfer_lock$", "DependencyGraph::transfer_lock")
    a = cx.args(c)
    cx.check(a[1] == "$2" and a[3] == "$3" and a[4] == "$4" and a[5] == "$5" and "current" in a[2], "Runtime::transfer_lock forwards (query, current thread, new owner, owner id, guard)", c, {"args": a[1:]}, key="tl-forward")


@ob("C18.4", ["C18", "C19"], "a release that forgets the transferred dependents (or the undo of a double claim) leaves threads waiting on queries nobody owns", kind="ONLYIF")
def c18_4(cx):
    """release(): claimed_twice => undo_transfer_lock; is_transfer_target => unblock_transferred_queries_owned_by; release_self with claimed_twice only flips the state back to Transferred; unblock_..._owned_by unblocks the dependents of every transferred query recursively; transfer_lock: unblock_transfer_target precedes update_transferred_edges precedes the block."""
    r = cx.fn(SY + r"ClaimGuard::<'me>::release$")
    u = cx.one_call(r, RT + r"undo_transfer_lock$", "undo_transfer_lock")
    cx.skipped_only_if(r, u, [BoolIs(r"^\$2\.claimed_twice$", False), BoolIs(r"^\$2\.anyone_waiting$", False)], "undo_transfer_lock skipped only if !claimed_twice (or nobody waits)")
    t = cx.one_call(r, RT + r"unblock_transferred_queries_owned_by$", "unblock_transferred_queries_owned_by")
    cx.skipped_only_if(r, t, [BoolIs(r"^\$2\.is_transfer_target$", False), BoolIs(r"^\$2\.anyone_waiting$", False)], "transferred waiters skipped only if this query never was a transfer target (or nobody waits)")
    cx.flow(r, cx.arg(t, 2), [r"^\$3$"], [], "transferred waiters get the same wait result", t)
    rs = cx.fn(SY + r"ClaimGuard::<'me>::release_self$")
    st = {x[1].split(".")[-1]: x[2] for x in cx.stores(rs)}
    cx.check(st.get("claimed_twice") == "const:0" and st.get("id", "").startswith("SyncOwner::Transferred"), "release_self of a double claim: claimed_twice := false, id := Transferred", None, {"stores": st}, key="release-self-flip", body=rs)
    o = cx.fn(DG + r"unblock_runtimes_blocked_on_transferred_queries_owned_by::unblock_recursive$")
    cx.some_calls(o, DG + r"unblock_runtimes_blocked_on$", 1, "unblock per transferred query")
    cx.check(any(s.body is o for s in cx.facts.call_sites_of(r"unblock_recursive$")), "the release recurses through nested transfers", body=o, key="recursive")
    tl = cx.fn(DG + r"transfer_lock$")
    a = cx.one_call(tl, DG + r"unblock_transfer_target$", "unblock_transfer_target")
    b = cx.one_call(tl, DG + r"update_transferred_edges$", "update_transferred_edges")
    w = cx.one_call(tl, DG + r"block_on$", "block_on in transfer_lock")
    cx.order(a, b, "the new owner is unblocked before the edges are rewritten")
    cx.order(b, w, "edges point at the new owner before this thread blocks on it")
    for s in cx.ret_sites(tl, None):
        pass
    # returns true only after blocking
    eng = OnlyIf(cx.facts, tl)
    for site, kind, node in value_defs(tl, 0):
        o2 = tl._origin_def(site, kind, node, 0, None, ())
        if o2 == "const:1":
            cx.check(tl.site_dominates(w, site), "transfer_lock reports `true` only after it blocked on the new owner", site, key="true-after-block")


# ---------------------------------------------------------------------------------------------
# C16.1 lock order

LOCK_CLASSES = [
    (r"\.syncs$", "SYNC"),
    (r"\.dependency_graph$", "DG"),
    (r"\$1\.shards|shards\[|get_unchecked\(.*shards", "INTERN"),
    (r"revision_queue\.lock$|^\$1\.lock$", "REVQ"),
    (r"\.set$", "LRU"),
    (r"\.non_full_pages$", "PAGES"),
    (r"\.clones$|coordinate", "COORD"),
]

GUARD_PARAM = [
    (r"MutexGuard<'.*hashbrown::HashTable<function::sync::SyncState>>", "SYNC"),
    (r"MutexGuard<'.*dependency_graph::DependencyGraph>", "DG"),
    (r"&mut interned::IngredientShard", "INTERN"),
]


TYPE_CLASSES = [(r"IngredientShard", "INTERN"), (r"HashTable<function::sync::SyncState>", "SYNC"), (r"DependencyGraph", "DG")]


def lock_class(origin, ty=""):
    for rx, c in LOCK_CLASSES:
        if re.search(rx, origin):
            return c
    for rx, c in TYPE_CLASSES:
        if re.search(rx, ty):
            return c
    return None


def compute_lock_graph(cx):
    facts = cx.facts
    direct = {}
    blocks = {}
    callees = {}
    for b in facts.all_bodies():
        d = set()
        for s in b.calls(r"Mutex::<R, T>::lock$|RawMutex::lock$|lock_api::RawMutex::lock$"):
            c = lock_class(cx.arg(s, 0), (s.node().get("atys") or [""])[0])
            d.add(c or "?" + cx.arg(s, 0)[-40:])
        direct[b.path] = d
        blocks[b.path] = bool(b.calls(r"Condvar::wait$|EdgeCondvar::wait$"))
        cs = set()
        for s, name in facts.callees_of(b):
            if name and facts.body(name) is not None:
                cs.add(name)
            f = s.node()["fn"]
            if f.get("def") and facts.body(f["def"]) is not None:
                cs.add(f["def"])
        for s, cb in facts.closures_of(b):
            cs.add(cb.path)
        callees[b.path] = cs
    acq = {p: set(d) for p, d in direct.items()}
    blk = dict(blocks)
    changed = True
    while changed:
        changed = False
        for p, cs in callees.items():
            for c in cs:
                if not acq[c] <= acq[p]:
                    acq[p] |= acq[c]
                    changed = True
                if blk[c] and not blk[p]:
                    blk[p] = True
                    changed = True
    return direct, acq, blk


@ob("C16.1", ["C16", "C19", "C08"], "a cyclic lock order between two of salsa's own locks, or parking while holding a sync-table / shard lock, deadlocks readers that only contend on salsa's bookkeeping", kind="LOCKORDER")
def c16_1(cx):
    """Acquire-while-holding edges between lock classes (SYNC sync-table shard, DG dependency graph, INTERN interned shard, REVQ, LRU, PAGES, COORD) form an acyclic graph; no second SYNC guard is taken while one is held; no Condvar wait is reachable while a SYNC or INTERN guard is held (guards handed over by value end the holder's region)."""
    facts = cx.facts
    direct, acq, blk = compute_lock_graph(cx)
    edges = {}
    nlocks = 0
    for b in facts.all_bodies():
        regions = []
        for s in b.calls(r"Mutex::<R, T>::lock$"):
            c = lock_class(cx.arg(s, 0), (s.node().get("atys") or [""])[0])
            nlocks += 1
            if c is None:
                cx.check(False, "lock site with unknown lock class", s, {"arg": cx.arg(s, 0)[-80:]}, key="unknown-lock " + b.path)
                continue
            regions.append((c, s))
        for c, l in regions:
            for s in b.calls(None):
                if s == l or not b.site_dominates(l, s) or not guard_live_at(b, l, s):
                    continue
                f = s.node()["fn"]
                names = [n for n in (f.get("resolved"), f.get("def")) if n]
                # the guard moved into this very call ends the region at the call
                moved = any(re.search(r"^parking_lot::lock_api::Mutex::<R, T>::lock\(", a) for a in cx.args(s)) and not re.search(r"deref|Deref", names[0] if names else "")
                inner = set()
                if any(re.search(r"Mutex::<R, T>::lock$", n) for n in names):
                    k = lock_class(cx.arg(s, 0))
                    if k:
                        inner.add(k)
                wait = any(re.search(r"Condvar::wait$", n) for n in names)
                for n in names:
                    if facts.body(n) is not None:
                        inner |= {x for x in acq[n]}
                        wait = wait or blk[n]
                for k in inner:
                    edges.setdefault((c, k), []).append(s)
                if wait and c in ("SYNC", "INTERN") and not moved:
                    cx.check(False, "may park (Condvar::wait) while holding a %s guard" % c, s, {"callee": names[:1]}, key="park-under-%s %s" % (c, b.path))
    cx.require(nlocks >= 20, "expected >= 20 lock sites, found %d" % nlocks)
    for (a, k), sites in sorted(edges.items()):
        cx.note("lock edge %s -> %s at %s" % (a, k, ", ".join(sorted({s.where() for s in sites})[:4])))
    # acyclicity
    adj = {}
    for (a, k) in edges:
        if a != k:
            adj.setdefault(a, set()).add(k)

    def reach(x, seen):
        for y in adj.get(x, ()):
            if y not in seen:
                seen.add(y)
                reach(y, seen)
        return seen

    for (a, k), sites in sorted(edges.items()):
        if a == k:
            cx.check(a not in ("SYNC", "DG", "INTERN"), "no second %s lock is taken while one is held" % a, sites[0], key="self-edge " + a)
        else:
            cyc = a in reach(k, set())
            cx.check(not cyc, "lock order %s -> %s is not part of a cycle" % (a, k), sites[0], {"edges": sorted("%s->%s" % e for e in edges)}, key="edge %s->%s" % (a, k))
    allowed = {("SYNC", "DG"), ("INTERN", "PAGES"), ("INTERN", "REVQ"), ("INTERN", "DG"), ("INTERN", "SYNC")}
    cx.check(("DG", "SYNC") not in edges, "the dependency-graph lock is never held while taking a sync-table lock", (edges.get(("DG", "SYNC")) or [None])[0], key="no DG->SYNC", body=cx.fn(RT + r"block$"))


@ob("C17.5", ["C17", "C19", "C16"], "if the claim of a key is looked up, recorded or released in a shard (or under a key) other than the one derived from that key, two threads can both hold the claim, or a release misses the entry and waiters are never woken", kind="FLOW (key -> hash -> shard -> entry agreement)")
def c17_5(cx):
    """SyncTable::{try_claim, peek_claim, mark_as_transfer_target}: hash = FxBuildHasher.hash_one(key_index); the shard locked is shard_for(hash); the table lookup uses that hash and an equality closure comparing state.key with the key asked; a vacant entry is filled with SyncState{key: key_index, id: Thread(current), flags false}; the ClaimGuard records (key_index, shard) of that lookup - in try_claim_transferred the key of the occupied entry and the shard passed in. shard_index depends only on the hash and the table size; shard_for indexes with it."""
    H = r"<FxBuildHasher as std::hash::BuildHasher>::hash_one\(FxBuildHasher\{\}, KEY\)"
    shard_forms = {}
    for name, key in (("SyncTable::try_claim", "$4"), ("SyncTable::peek_claim", "$3"), ("SyncTable::mark_as_transfer_target", "$2")):
        b = cx.fn(SY + name + r"$")
        h = H.replace("KEY", re.escape(key))
        lk = cx.one_call(b, r"^parking_lot::lock_api::Mutex::<R, T>::lock$", "shard lock in " + name)
        SHARD = r"(function::sync::SyncTable::shard_for\(\$1, " + h + r"\)|transmute\(\$1\.shards\.0\.pointer\)\[function::sync::SyncTable::shard_index\(\$1, " + h + r"\)\])"
        cx.flow(b, cx.arg(lk, 0), [r"^" + SHARD + r"\.syncs$"], [r"shards\.0\.pointer\)\[const:"], "%s: the lock taken is the shard chosen by the hash of the key asked" % name, lk)
        look = cx.one_call(b, r"^hashbrown::HashTable::<T, A>::(entry|find_entry|find_mut)$", "table lookup in " + name)
        la = cx.args(look)
        cx.flow(b, la[0], [r"^parking_lot::lock_api::Mutex::<R, T>::lock\(" + SHARD + r"\.syncs\)$"], [], "%s: the lookup runs on the locked shard" % name, look)
        cx.flow(b, la[1], [r"^" + h + r"$"], [r"^const:"], "%s: under the key's hash" % name, look)
        cx.flow(b, la[2], [r"^closure:.*\[" + re.escape(key) + r"\]$"], [], "%s: comparing entries with the key asked" % name, look)
        m = re.match(r"^closure:([^\[\]]+)\[", la[2])
        eqc = cx.facts.body(m.group(1)) if m else None
        cx.require(eqc is not None, "%s: equality closure" % name)
        cx.flow(eqc, eqc.origin_local(0), [r"^<Id as std::cmp::PartialEq>::eq\(\$2\.key, \$1\.0\)$", r"^<Id as std::cmp::PartialEq>::eq\(\$1\.0, \$2\.key\)$"], [r"^const:", r"id::Id::(index|generation)\("], "%s: an entry matches iff its key (index AND generation) equals the key asked" % name)
        shard_forms[name] = cx.arg(lk, 0).replace(key, "KEY")
    cx.check(len(set(shard_forms.values())) == 1, "all entry points derive the shard from the key in the same way", None, {"forms": shard_forms}, key="shard-agreement", body=cx.fn(SY + r"SyncTable::peek_claim$"))
    t = cx.fn(SY + r"SyncTable::try_claim$")
    h4 = H.replace("KEY", r"\$4")
    st = cx.one(t.aggregates(r"^function::sync::SyncState$"), "SyncState aggregate in try_claim")
    cx.flow(t, t._origin_def(st, "assign", st.node(), 0, None, ()), [r"^SyncState\{key: \$4, id: SyncOwner::Thread\{0: std::thread::Thread::id\(std::thread::current\(\)\)\}, anyone_waiting: const:0, is_transfer_target: const:0, claimed_twice: const:0\}$"], [r"key: (?!\$4)"], "a fresh claim records the key asked, this thread, and clear flags", st)
    g = cx.one(t.aggregates(r"^function::sync::ClaimGuard$"), "ClaimGuard aggregate in try_claim")
    go = t._origin_def(g, "assign", g.node(), 0, None, ())
    cx.flow(t, go, [r"\bkey_index: \$4,"], [r"\bkey_index: (?!\$4,)"], "the guard releases the key it claimed", g)
    lk4 = cx.arg(cx.one_call(t, r"^parking_lot::lock_api::Mutex::<R, T>::lock$", "lock"), 0)
    cx.require(lk4.endswith(".syncs"), "lock operand is <shard>.syncs")
    cx.check(("shard: " + lk4[:-len(".syncs")]) in go, "the guard releases in the shard it locked", g, {"locked": lk4, "guard": go[:300]}, key="guard-shard")
    hc = cx.closure_passed_to(t, r"^hashbrown::HashTable::<T, A>::entry$", which=lambda c: bool(c.calls(r"BuildHasher::hash_one$")))
    cx.flow(hc, hc.origin_local(0), [r"^<FxBuildHasher as std::hash::BuildHasher>::hash_one\(FxBuildHasher\{\}, \$2\.key\)$"], [r"^const:"], "rehashing uses the same hash function on the stored key")
    tt = cx.fn(SY + r"SyncTable::try_claim_transferred$")
    gs = cx.sites(tt.aggregates(r"^function::sync::ClaimGuard$"), 2, "ClaimGuard aggregates in try_claim_transferred")
    for g in gs:
        go = tt._origin_def(g, "assign", g.node(), 0, None, ())
        cx.flow(tt, go, [r"\bkey_index: hashbrown::hash_table::OccupiedEntry::<'a, T, A>::get\(\$4\)\.key,"], [r"\bkey_index: const:"], "a re-claimed transferred query is released under the entry's key", g)
        cx.flow(tt, go, [r"\bshard: \$5[,}]"], [r"\bshard: (?!\$5[,}])"], "in the shard it was found in", g)
    call = cx.one_call(t, SY + r"SyncTable::try_claim_transferred$", "try_claim_transferred call")
    cx.check(cx.arg(call, 4) == lk4[:-len(".syncs")], "try_claim hands over the shard it locked", call, {"arg": cx.arg(call, 4), "locked": lk4}, key="handover-shard")
    si = cx.fn(SY + r"SyncTable::shard_index$")
    cx.flow(si, si.origin_local(0), [r"^\(\(\$2 Shl const:7\) Shr \(const:core::num::<impl usize>::BITS(=\d+)? Sub(WithOverflow)? core::num::<impl usize>::trailing_zeros\(core::slice::<impl \[T\]>::len\(transmute\(\$1\.shards\.0\.pointer\)\)\)\)(\.0)?\)$"], [], "shard_index is a function of the hash and the (fixed) number of shards")
    sf = cx.fn(SY + r"SyncTable::shard_for$")
    cx.flow(sf, sf.origin_local(0), [r"^transmute\(\$1\.shards\.0\.pointer\)\[function::sync::SyncTable::shard_index\(\$1, \$2\)\]$", r"\$1\.shards.*\[function::sync::SyncTable::shard_index\(\$1, \$2\)\]"], [r"\[const:"], "shard_for = shards[shard_index(hash)]")


@ob("C16.4", ["C16", "C08", "C09", "C19", "C24"], "`let _ = m.lock();` acquires and releases at once: the critical section it was meant to protect runs unlocked (a classic refactoring slip that compiles and passes single-threaded tests)", kind="GUARDTYPE (every guard protects something)")
def c16_4(cx):
    """Every Mutex::lock / RwLock::read|write in the crate returns a guard that is not dropped before anything else happens: between the acquisition and the guard's drop (or its move out of the function) at least one other statement or call executes on some path."""
    n = 0
    bad = 0
    for b in cx.facts.all_bodies():
        for lk in b.calls(r"^parking_lot::lock_api::(Mutex::<R, T>::lock|RwLock::<R, T>::(read|write))$"):
            n += 1
            g = lk.node()["dest"]["l"]
            t = lk.node().get("t")
            if t is None:
                continue
            blk = b.blocks[t]
            # the guard is dropped at once iff the return block has no statements and its terminator drops the guard local
            term = blk["term"]
            immediate = (not blk["stmts"]) and term["k"] == "drop" and term["p"]["l"] == g and not term["p"]["pj"]
            if immediate:
                bad += 1
            cx.check(not immediate, "the guard returned by %s is held across the code it protects (not dropped at once)" % b.callee(lk).split("::")[-1], lk, key="guard-held %s %d" % (b.path, lk.bb))
    cx.require(n >= 10, "lock acquisitions in the crate (found %d)" % n)
