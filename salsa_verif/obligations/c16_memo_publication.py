"""C16.3 / C17 — lock-free memo-table publication."""
import re

from ..framework import ob, Inconclusive
from ..mirlib import Cmp, CallIs, VariantIn, BoolIs, OnlyIf, Site
from .c01_reuse import ret_cases, value_defs


@ob("C16.3", ["C16", "C17", "C23"], "two threads that both publish 'their' freshly allocated memo-entry array with a plain store lose the memo the other one inserted: a result computed in this revision disappears and is computed again (or a freed array is read)", kind="ATOMIC+FLOW")
def c16_3(cx):
    """LazyMemoEntries::initialize publishes the new array only by compare_exchange(null -> new, Release, Acquire); the loser frees its own allocation and continues with the winner's pointer; no plain store to `ptr` exists outside &mut self code; as_slice loads with Acquire; memo slots are replaced with swap(AcqRel) and read with load(Acquire)."""
    b = cx.fn(r"^table::memo::LazyMemoEntries::initialize$")
    ce = cx.one_call(b, r"compare_exchange$", "compare_exchange in initialize")
    a = cx.args(ce)
    cx.flow(b, a[0], [r"^\$1\.ptr$"], [], "the CAS targets the shared pointer", ce)
    cx.flow(b, a[1], [r"^std::ptr::null_mut(::<[^()]*>)?\(\)$"], [], "publication succeeds only from the empty (null) state", ce)
    cx.flow(b, a[3], [r"^Ordering::(Release|AcqRel|SeqCst)"], [r"Ordering::(Relaxed|Acquire)\b"], "success ordering publishes the initialised entries (Release)", ce)
    cx.flow(b, a[4], [r"^Ordering::(Acquire|SeqCst)"], [r"Ordering::Relaxed"], "failure ordering acquires the winner's entries", ce)
    plain = [s for s in b.calls(r"atomic::Atomic.*::(store|swap)$")]
    cx.check(not plain, "initialize never overwrites the pointer unconditionally (store/swap)", plain[0] if plain else ce, key="no-plain-store")
    fr = cx.one_call(b, r"Box::<T(, A)?>::from_raw$", "drop of the losing allocation")
    cx.only_if(b, fr, VariantIn(r"compare_exchange\(", {"Err"}), "the local allocation is freed only if another thread won the race")
    cx.skipped_only_if(b, fr, VariantIn(r"compare_exchange\(", {"Ok"}), "a losing allocation is always freed (no leak, and never used)")
    ro = b.origin_local(0)
    cx.flow(b, ro, [r"from_raw_parts(::<[^()]*>)?\(phi\{.*compare_exchange\(.*\)@Err\.0.*\}, \$1\.len\)$|from_raw_parts(::<[^()]*>)?\(phi\{.*\}, \$1\.len\)$"], [], "the slice returned is built from the published pointer (own on success, the winner's on failure)")
    for body in cx.facts.all_bodies():
        if not body.file.endswith("table/memo.rs"):
            continue
        for s in body.calls(r"atomic::AtomicPtr::<T>::store$|Atomic.*Ptr.*::store$"):
            if re.search(r"\.ptr$", cx.arg(s, 0)):
                cx.check(body.info.get("inputs", [""])[0].startswith("&mut "), "a plain store to LazyMemoEntries.ptr needs &mut self", s, key="ptr-store " + body.path)
    sl = cx.fn(r"^table::memo::LazyMemoEntries::as_slice$")
    ld = cx.one_call(sl, r"::load$", "load in as_slice")
    cx.flow(sl, cx.arg(ld, 1), [r"^Ordering::(Acquire|SeqCst)"], [r"Ordering::Relaxed"], "readers acquire the published entries", ld)
    gi = cx.fn(r"^table::memo::LazyMemoEntries::get_or_init$")
    ini = cx.one_call(gi, r"LazyMemoEntries::initialize$|unwrap_or_else$", "initialisation fallback in get_or_init")
    cx.check(any(gi.site_dominates(c, ini) for c in gi.calls(r"LazyMemoEntries::as_slice$")), "get_or_init initialises only after looking at the published array", ini, key="look-before-init")
    ins = cx.fn(r"^table::memo::MemoTableWithTypes::<'a>::insert$|MemoTableWithTypes::<'_>::insert$|MemoTableWithTypes.*::insert$")
    sw = cx.one_call(ins, r"::swap$", "slot swap in insert")
    cx.flow(ins, cx.arg(sw, 2), [r"^Ordering::(AcqRel|SeqCst)"], [r"Ordering::(Relaxed|Acquire|Release)\b"], "a memo is published (and the old one taken) with AcqRel", sw)
    cx.check(not ins.calls(r"atomic::Atomic.*::store$"), "insert never overwrites a slot without taking the old memo", sw, key="swap-not-store")
    o = ins.origin_local(0)
    cx.flow(ins, o, [r"swap\("], [r"^Option::None"], "insert returns the memo that was replaced (so that it can be parked)")
    for name in (r"MemoTableWithTypes.*::get$", r"MemoTableWithTypes.*::get_erased$"):
        g = cx.fn(r"^table::memo::" + name)
        for l in cx.some_calls(g, r"::load$", 1, "slot load"):
            cx.flow(g, cx.arg(l, 1), [r"^Ordering::(Acquire|SeqCst)"], [r"Ordering::Relaxed"], "memo slots are read with Acquire", l)
