"""C06 — tracked struct identity across re-execution; C07 — reclaimed identities never alias (tracked + id layout)."""
import re

from ..framework import ob, Inconclusive
from ..mirlib import Cmp, CallIs, VariantIn, BoolIs, OnlyIf
from .c01_execute import closure_origin

EXPLANATIONS = {
    "C06": "Decided: the previous execution's tracked-struct ids are seeded before the body runs; a new struct's identity is "
    "(ingredient, hash of identity fields, per-query disambiguator) with derived equality over all three; lookup reuses the "
    "seeded id and marks it active, a miss allocates and records the id; drain splits active/stale by the flag and the stale "
    "list plus old outputs not recreated are reported stale; stale tracked structs are deleted (write-lock word cleared, memos "
    "cleared, slot freed) and no longer enumerated; green creators mark outputs validated. Not decided: id equality across "
    "executions of concrete programs.",
    "C07": "Decided: every slot re-initialisation takes its id from old_id.next_generation() (overflow leaks the slot); memos of "
    "the old identity are cleared before the slot is offered for reuse; delete panics on read- or write-locked ids; update touches "
    "a struct only if it was not yet updated this revision; generation is part of Id equality/hash and of stored edges; interned "
    "dependents compare generations (shared C01.6). Interned slot recycling: new fields assembled under the new id, stale key-map entry removed under the OLD fields' hash and re-inserted under the new one, metadata.id := new id, the old memos cleared under the OLD id on every path after the fields were replaced, the returned id is the new generation. Not decided: absence of aliasing in a concrete history.",
}

TS = r"^tracked_struct::IngredientImpl::<C>::"
VAL = r"tracked_struct::IngredientImpl::<C>::data_raw\(zalsa::Zalsa::table\(\$2\), \$3\)"


@ob("C06.1", ["C06"], "without seeding, every re-execution allocates fresh ids and all memos keyed by the struct are invalidated; seeding from another key's memo hands out foreign ids", kind="ORDER+FLOW")
def c06_1(cx):
    """seed_active_query seeds the previous revisions' tracked_struct_ids into the active query (before the body: C01.7); seed_tracked_struct_ids -> IdentityMap::seed inserts entries inactive; execute passes the old memo (or last provisional memo) of the same key."""
    s = cx.fn(r"^function::execute::<impl function::memo::MemoHeader>::seed_active_query$")
    c = cx.one_call(s, r"ActiveQueryGuard::<'me>::seed_tracked_struct_ids$", "seed_tracked_struct_ids call")
    cx.must_call(s, r"ActiveQueryGuard::<'me>::seed_tracked_struct_ids$")
    cx.flow(s, cx.arg(c, 1), [r"^zalsa_local::QueryRevisions::tracked_struct_ids\(\$1\.revisions\)$"], [], "ids come from this header's revisions", c)
    im = cx.fn(r"^tracked_struct::IdentityMap::seed$")
    ie = cx.one_call(im, r"^tracked_struct::IdentityMap::insert_entry$", "insert_entry in seed")
    cx.flow(im, cx.arg(ie, 3), [r"^const:0$"], [r"^const:1$"], "seeded entries start inactive", ie)
    for name in ("insert", "mark_all_active"):
        b = cx.fn(r"^tracked_struct::IdentityMap::%s$" % name)
        ie = cx.one_call(b, r"^tracked_struct::IdentityMap::insert_entry$", "insert_entry in " + name)
        cx.flow(b, cx.arg(ie, 3), [r"^const:1$"], [r"^const:0$"], "%s marks entries active" % name, ie)
    e = cx.fn(r"^function::execute::<impl function::IngredientImpl<C>>::execute$")
    q = cx.one_call(e, r"execute_query$", "execute_query in execute")
    cx.flow(e, cx.arg(q, 3), [r"^std::option::Option::<T>::map\(\$4, closure:"], [], "plain execution seeds from opt_old_memo", q)
    em = cx.one_call(e, r"execute_maybe_iterate$", "execute_maybe_iterate in execute")
    cx.flow(e, cx.arg(em, 2), [r"^\$4$"], [], "cycle execution seeds from opt_old_memo", em)
    # the old memo handed to execute is whatever the table holds for the key - also a memo whose VALUE
    # was evicted still carries the tracked-struct ids and outputs of the previous execution
    for xs in cx.sites(cx.facts.call_sites_of(r"^function::execute::<impl function::IngredientImpl<C>>::execute$"), 2, "callers of execute"):
        o = cx.arg(xs, 3)
        if xs.body.path.endswith("fetch_cold"):
            cx.flow(xs.body, o, [r"^function::memo::<impl function::IngredientImpl<C>>::get_memo_from_table_for\(\$1, \$2, \$5, \$6\)$"], [r"Option::<T>::filter\(", r"Option::None"], "fetch_cold passes the key's current memo (unfiltered) as the old memo", xs)
        else:
            cx.flow(xs.body, o, [r"^Option::Some\{0: function::memo::ErasedMemo::<'memo>::downcast\(.*maybe_changed_after_cold::inner\(.*memo_slot\(\$1, \$2, key::DatabaseKeyIndex::key_index\(\$5\), \$7\)"], [r"Option::None"], "maybe_changed_after_cold passes the memo it failed to verify as the old memo", xs)
    g = cx.fn(r"^zalsa_local::ActiveQueryGuard::<'me>::seed_tracked_struct_ids$")
    cb = cx.closure_passed_to(g, r"with_query_stack_unchecked_mut$")
    sc = cx.one_call(cb, r"^tracked_struct::IdentityMap::seed$", "IdentityMap::seed call")
    cx.flow(cb, cb.origin_op(sc.node()["args"][1], 0, {1: closure_origin(g, cb)}), [r"^\$2$"], [], "seeds the ids passed in", sc)


@ob("C06.2", ["C06", "C07", "C01"], "an identity that ignores the ingredient, the identity-field hash or the disambiguator merges distinct structs (or splits equal ones)", kind="FLOW")
def c06_2(cx):
    """new_struct: identity = (self.ingredient_index, hash(untracked_fields(fields)), disambiguate(identity_hash)); lookup by that identity; on a hit update() and keep/replace the id; on a miss allocate and store the id; Identity/IdentityHash equality is derived over all fields."""
    b = cx.fn(TS + r"new_struct$")
    h = cx.one_call(b, r"^hash::hash$", "identity hash")
    cx.flow(b, cx.arg(h, 0), [r"^<C as tracked_struct::Configuration>::untracked_fields\(\$4\)$"], [], "hash covers the untracked (identity) fields of the new struct", h)
    d = cx.one_call(b, r"^zalsa_local::ZalsaLocal::disambiguate$", "disambiguate call")
    cx.flow(b, cx.arg(d, 1), [r"^IdentityHash\{ingredient_index: \$1\.ingredient_index, hash: hash::hash\("], [], "disambiguation key = (ingredient, identity hash)", d)
    lk = cx.one_call(b, r"^zalsa_local::ZalsaLocal::tracked_struct_id$", "identity lookup")
    cx.flow(b, cx.arg(lk, 1), [r"^Identity\{ingredient_index: \$1\.ingredient_index, hash: hash::hash\(.*\), disambiguator: zalsa_local::ZalsaLocal::disambiguate\(.*\)\.1\}$",
                               r"^Identity\{ingredient_index: IdentityHash\{.*\}\.ingredient_index, hash: .*, disambiguator: .*disambiguate\(.*\)\.1\}$"], [r"disambiguator: const:"], "lookup identity = (ingredient, hash, disambiguator)", lk)
    up = cx.one_call(b, TS + r"update$", "update call")
    cx.only_if(b, up, VariantIn(r"ZalsaLocal::tracked_struct_id\(", {"Some"}), "update only for an id found under this identity")
    cx.flow(b, cx.arg(up, 2), [r"ZalsaLocal::tracked_struct_id\(.*\)@Some\.0$"], [], "updates the slot found for this identity", up)
    al = cx.one_call(b, TS + r"allocate$", "allocate call")
    st = cx.some_calls(b, r"^zalsa_local::ZalsaLocal::store_tracked_struct_id$", 2, "store_tracked_struct_id calls")
    after_alloc = [s for s in st if b.reaches(al, s)]
    cx.check(bool(after_alloc), "a freshly allocated id is recorded under the identity", al, key="store-after-allocate")
    for s in after_alloc:
        cx.flow(b, cx.arg(s, 2), [r"^" + TS[1:] + r"allocate\("], [], "records the allocated id", s)
    # an id whose generation was bumped by update() must be recorded: every path to a return passes a
    # store_tracked_struct_id call or an edge establishing updated_id == id (full Id equality)
    same = Cmp(r"update\(.*\)@Ok\.0$", "==", r"ZalsaLocal::tracked_struct_id\(.*\)@Some\.0$", desc="updated_id == id")
    eng = OnlyIf(cx.facts, b)
    edges = eng.establishing_edges(same)
    reach = b.reachable(0, "normal", cut_edges=edges, cut_blocks={s.bb for s in st})
    bad = [r for r in b.return_blocks() if r in reach]
    cx.check(not bad, "new_struct returns without recording the id only if update() returned the very same Id (index and generation)", up, {"returns_reached": bad, "establishing_edges": len(edges)}, key="store-unless-same-id")
    for t in ("Identity", "IdentityHash"):
        cx.check(cx.facts.is_derived(r"^std::cmp::PartialEq$", r"^tracked_struct::%s$" % t), "%s: PartialEq is derived (covers every field)" % t, body=b, key="derived-eq " + t)
    flds = [n for n, _ in cx.facts.adts["tracked_struct::Identity"]["variants"][0]["fields"]]
    cx.check(set(flds) == {"ingredient_index", "hash", "disambiguator"}, "Identity has exactly ingredient_index, hash, disambiguator", body=b, detail={"fields": flds}, key="identity-fields")
    # reuse marks active and returns the stored id
    r = cx.fn(r"^tracked_struct::IdentityMap::reuse$")
    cb = cx.closure_passed_to(r, r"^std::option::Option::<T>::map$")
    sts = cx.stores(cb, r"\.active$")
    cx.sites(sts, 1, "reuse: store to active")
    for s, po, vo in sts:
        cx.flow(cb, vo, [r"^const:1$"], [r"^const:0$"], "reuse marks the entry active", s)
    cx.flow(cb, cb.origin_local(0), [r"^\$2\.id$"], [], "reuse returns the stored id")
    # DisambiguatorMap: post-increment
    dm = cx.fn(r"^tracked_struct::DisambiguatorMap::disambiguate$")
    adds = [s for s, po, vo in cx.stores(dm) if re.search(r"Add", vo)]
    cx.check(len(adds) >= 1, "disambiguate increments the per-hash counter", adds[0] if adds else None, key="disamb-incr", body=dm)


@ob("C06.3", ["C06"], "a struct the query no longer creates that is reported active survives; an active one reported stale is deleted under its users", kind="FLOW")
def c06_3(cx):
    """IdentityMap::drain puts an entry into the active list iff entry.active, else into the stale list; prepare_completion stores the active list into the new revisions and returns the stale list."""
    b = cx.fn(r"^tracked_struct::IdentityMap::drain$")
    pushes = b.calls(r"push$")
    cx.sites(pushes, 2, "push calls in drain")
    act = [p for p in pushes if "ThinVec" in b.callee(p) or "thin_vec" in b.callee(p)]
    stale = [p for p in pushes if p not in act]
    cx.require(len(act) == 1 and len(stale) == 1, "expected one ThinVec push (active) and one Vec push (stale)")
    flag = r"\.active$"
    cx.only_if(b, act[0], BoolIs(flag, True), "pushed to the active list only if entry.active")
    cx.only_if(b, stale[0], BoolIs(flag, False), "pushed to the stale list only if !entry.active")
    r = b.origin_local(0)
    cx.flow(b, r, [r"^phi\{.*tuple\{0: thin_vec::ThinVec::<T>::with_capacity\(.*\), 1: std::vec::Vec::<T>::new\(\)\}.*\}$|^phi\{tuple\{0: .*ThinVec.*new.*, 1: .*Vec.*new.*\} \| tuple\{0: .*with_capacity.*, 1: .*Vec::<T>::new\(\)\}\}$", r"tuple\{0: thin_vec::ThinVec::<T>::with_capacity"], [], "returns (active, stale) in that order")
    pc = cx.fn(r"^active_query::ActiveQuery::prepare_completion$")
    dr = cx.one_call(pc, r"^tracked_struct::IdentityMap::drain$", "drain in prepare_completion")
    ex = cx.one_call(pc, r"^zalsa_local::QueryRevisionsExtra::new$", "QueryRevisionsExtra::new")
    a = cx.args(ex)
    cx.check(any(re.search(r"drain\(.*\)\.0$", x) for x in a) and not any(re.search(r"drain\(.*\)\.1$", x) for x in a), "the ACTIVE list (drain().0) becomes the new revisions' tracked_struct_ids", ex, {"args": a}, key="active-into-extra")
    agg = cx.one(pc.aggregates(r"^active_query::QueryCompletion$"), "QueryCompletion aggregate")
    o = pc._origin_def(agg, "assign", agg.node(), 0, None, ())
    cx.flow(pc, o, [r"stale_tracked_structs: tracked_struct::IdentityMap::drain\(.*\)\.1\}?"], [r"stale_tracked_structs: tracked_struct::IdentityMap::drain\(.*\)\.0"], "the STALE list (drain().1) is handed to diff_outputs", agg)


@ob("C06.4", ["C06", "C07", "C23"], "a stale struct that is not deleted keeps its memoized results and stays enumerable; memos surviving the deletion would be served for the next struct allocated in the slot", kind="MUSTCALL+ORDER")
def c06_4(cx):
    """diff_outputs reports every stale tracked struct and every old output not recreated; report_stale_output -> remove_stale_output; tracked remove_stale_output -> delete_entity; delete_entity: updated_at.swap(None) (panics on None / current revision) then clear_memos then free_list.push(id); entries() filters updated_at.is_some()."""
    d = cx.fn(r"^function::diff_outputs::<impl function::memo::MemoHeader>::diff_outputs$")
    reps = cx.some_calls(d, r"^function::diff_outputs::report_stale_output$", 2, "report_stale_output calls")
    its = d.calls(r"^std::iter::IntoIterator::into_iter$")
    cx.check(any(re.search(r"^\$4\.stale_tracked_structs$", cx.arg(i, 0)) for i in its), "diff_outputs iterates completed_query.stale_tracked_structs", its[0] if its else None, key="iter-stale", body=d)
    r = cx.fn(r"^function::diff_outputs::report_stale_output$")
    cx.must_call(r, r"^key::DatabaseKeyIndex::remove_stale_output$")
    c = cx.one_call(r, r"^key::DatabaseKeyIndex::remove_stale_output$", "remove_stale_output call")
    cx.flow(r, cx.arg(c, 0), [r"^\$3$"], [], "removes the reported output", c)
    t = cx.fn(r"^<tracked_struct::IngredientImpl<C> as ingredient::Ingredient>::remove_stale_output$")
    cx.must_call(t, TS + r"delete_entity$")
    de = cx.fn(TS + r"delete_entity$")
    sw = cx.one_call(de, r"^revision::OptionalAtomicRevision::swap$", "updated_at.swap in delete_entity")
    cm = cx.one_call(de, TS + r"clear_memos$", "clear_memos in delete_entity")
    fp = cx.one_call(de, r"SegQueue::<T>::push$", "free_list.push in delete_entity")
    cx.flow(de, cx.arg(sw, 0), [r"^" + VAL + r"\.updated_at$"], [], "swaps the lock word of the deleted id", sw)
    cx.flow(de, cx.arg(sw, 1), [r"^Option::None\{\}$"], [r"Option::Some"], "stores None (deleted / write-locked)", sw)
    cx.order(sw, cm, "lock word cleared before the memos are dropped")
    cx.order(cm, fp, "memos cleared before the slot is offered for reuse")
    cx.flow(de, cx.arg(cm, 2), [r"^" + VAL + r"\.memos$"], [], "clears the memo table of the deleted id", cm)
    cx.flow(de, cx.arg(fp, 1), [r"^\$3$"], [], "frees the deleted id", fp)
    cx.must_call(de, r"SegQueue::<T>::push$", "every non-panicking deletion frees the slot")
    # C07.3 panics
    old = r"OptionalAtomicRevision::swap\(" + VAL + r"\.updated_at, Option::None\{\}\)"
    cx.only_if(de, cm, VariantIn(r"^revision::" + old + r"$", {"Some"}), "deletion proceeds only if the lock word was Some (not write-locked)")
    cx.only_if(de, cm, Cmp(old + r"@Some\.0$", "!=", r"^zalsa::Zalsa::current_revision\(\$2\)$"), "deletion proceeds only if the struct was not read/updated in the current revision")
    e = cx.fn(TS + r"entries$")
    cb = cx.closure_passed_to(e, r"^std::iter::Iterator::filter$")
    r0 = cb.origin_local(0)
    cx.flow(cb, r0, [r"^std::option::Option::<T>::is_some\(revision::OptionalAtomicRevision::load\(.*\.updated_at\)\)$"], [r"^const:1$"], "entries() keeps only structs whose lock word is Some")


@ob("C06.6", ["C06", "C10"], "outputs of a green creator that are not marked validated are re-verified as stale although their creator did not re-run", kind="MUSTCALL")
def c06_6(cx):
    """update_shallow(HigherDurability) marks the memo and its outputs verified; mark_outputs_as_verified iterates origin().outputs(); tracked mark_validated_output touches only structs not yet updated this revision."""
    u = cx.fn(r"^function::maybe_changed_after::<impl function::memo::MemoHeader>::update_shallow$")
    hd = VariantIn(r"^\$4$", {"HigherDurability"})
    for rx in (r"MemoHeader::mark_as_verified$", r"MemoHeader::mark_outputs_as_verified$"):
        c = cx.one_call(u, rx, rx)
        cx.only_if(u, c, hd, "%s only for HigherDurability" % rx)
        cx.skipped_only_if(u, c, VariantIn(r"^\$4$", {"Verified", "No"}), "%s skipped only if not HigherDurability" % rx)
    m = cx.fn(r"^function::memo::MemoHeader::mark_outputs_as_verified$")
    cx.some_calls(m, r"^key::DatabaseKeyIndex::mark_validated_output$", 1, "mark_validated_output in mark_outputs_as_verified")
    mv = cx.fn(r"^function::memo::MemoHeader::mark_as_verified$")
    st = cx.one_call(mv, r"^revision::AtomicRevision::store$", "verified_at.store")
    cx.flow(mv, cx.arg(st, 0), [r"^\$1\.verified_at$"], [], "stores into verified_at", st)
    cx.flow(mv, cx.arg(st, 1), [r"^zalsa::Zalsa::current_revision\(\$2\)$"], [r"^const:", r"Revision::start"], "verified_at := current revision", st)
    cx.must_call(mv, r"^revision::AtomicRevision::store$")


# ---------------------------------------------------------------------------------------------
# C07


@ob("C07.1", ["C07", "C24", "C01"], "a reused slot that keeps its generation makes the new value indistinguishable from the old one: memos and edges keyed by the old id apply to the new value", kind="FLOW+ORDER")
def c07_1(cx):
    """tracked allocate: an id popped from the free list is re-initialised only under id.next_generation() (None => the slot is leaked, loop continues); tracked update: when identity fields changed, memos are cleared and the id becomes next_generation(); generation == u32::MAX refuses the update."""
    a = cx.fn(TS + r"allocate$")
    pop = cx.one_call(a, r"SegQueue::<T>::pop$", "free_list.pop")
    ng = cx.one_call(a, r"^id::Id::next_generation$", "next_generation in allocate")
    cx.flow(a, cx.arg(ng, 0), [r"SegQueue::<T>::pop\(\$1\.free_list\)@Some\.0$"], [], "generation bump applies to the popped id", ng)
    newid = r"id::Id::next_generation\(crossbeam_queue::SegQueue::<T>::pop\(\$1\.free_list\)@Some\.0\)@Some\.0"
    stores = [x for x in cx.stores(a) if re.search(r"data_raw\(", x[1])]
    cx.sites(stores, 1, "re-initialising store in allocate")
    for s, po, vo in stores:
        cx.flow(a, po, [r"data_raw\(zalsa::Zalsa::table\(\$2\), " + newid + r"\)$"], [r"data_raw\(zalsa::Zalsa::table\(\$2\), crossbeam_queue::SegQueue::<T>::pop\(\$1\.free_list\)@Some\.0\)$"], "the slot is addressed by the NEW-generation id", s)
        cx.only_if(a, s, VariantIn(r"^id::Id::next_generation\(", {"Some"}), "slot reused only if the generation could be incremented")
    rets = [s for s, k, n in a.full_defs(0)]
    ro = a.origin_local(0)
    cx.flow(a, ro, [r"^phi\{" + newid + r" \| zalsa_local::ZalsaLocal::allocate::<tracked_struct::Value<C>, .*\)\.0\}$", r"^phi\{.*next_generation\(.*\)@Some\.0 \| .*ZalsaLocal::allocate.*\.0\}$"], [r"phi\{crossbeam_queue::SegQueue::<T>::pop\(\$1\.free_list\)@Some\.0 \|"], "allocate returns the bumped id or a fresh one")
    u = cx.fn(TS + r"update$")
    cm = cx.one_call(u, TS + r"clear_memos$", "clear_memos in update")
    ng = cx.one_call(u, r"^id::Id::next_generation$", "next_generation in update")
    changed = CallIs(r"^tracked_struct::Configuration::update_fields$", True, desc="identity fields changed")
    cx.only_if(u, cm, changed, "memos cleared when identity fields changed")
    cx.order(cm, ng, "memos of the old identity are cleared before the id moves to the next generation")
    cx.skipped_only_if(u, ng, [CallIs(r"^tracked_struct::Configuration::update_fields$", False), Cmp(r"OptionalAtomicRevision::load\(", "==", r"Option::Some\{0: zalsa::Zalsa::current_revision\(\$2\)\}"), Cmp(r"^id::Id::generation\(\$3\)$", "==", r"(:|=)4294967295$")],
                        "Ok(id) without a generation bump only if identity fields did not change (or the struct was already updated this revision)",
                        exits=[s.bb for s in cx.ret_sites(u, "Ok")])
    # the id handed back after an identity change IS the bumped one (a shadowing `let id = ..` inside the branch
    # bumps nothing: the creator keeps the old id, is backdated, and readers of identity fields stay stale)
    for s in cx.ret_sites(u, "Ok"):
        if u.reaches(ng, s):
            o = u._origin_def(s, "assign", s.node(), 0, None, ())
            cx.flow(u, o, [r"id::Id::next_generation\((\$3|rec)\)"], [r"^Result::Ok\{0: \$3\}$"], "after an identity change update returns the next-generation id", s)
    # generation overflow => Err(fields)
    for s in cx.ret_sites(u, "Err"):
        cx.only_if(u, s, Cmp(r"^id::Id::generation\(\$3\)$", "==", r"(:|=)4294967295$"), "update is refused only on generation overflow")
    n = cx.fn(r"^id::Id::next_generation$")
    cx.check(bool(n.calls(r"checked_add$")), "next_generation uses checked arithmetic (overflow => None)", body=n, key="checked-add")


@ob("C07.3", ["C07", "C23", "C01", "C16"], "updating a struct that was already read in this revision mutates data behind live references; overwriting the write-lock marker hides a concurrent writer", kind="ONLYIF")
def c07_3(cx):
    """update: asserts updated_at.is_some(); returns early if updated_at == Some(current_revision); the write-lock swap(None) happens only otherwise and must return the value just loaded; after the update swap(Some(current_revision)) must have returned None. acquire_read_lock never overwrites None."""
    u = cx.fn(TS + r"update$")
    sws = cx.some_calls(u, r"^revision::OptionalAtomicRevision::swap$", 2, "updated_at swaps in update")
    lock = [s for s in sws if cx.arg(s, 1) == "Option::None{}"]
    unlock = [s for s in sws if re.match(r"^Option::Some\{0: zalsa::Zalsa::current_revision\(\$2\)\}$", cx.arg(s, 1))]
    cx.require(len(lock) == 1 and len(unlock) == 1, "expected one swap(None) and one swap(Some(current_revision)); got %r" % [cx.arg(s, 1) for s in sws])
    lw = r"OptionalAtomicRevision::load\(" + VAL + r"\.updated_at\)"
    cx.only_if(u, lock[0], Cmp(lw + "$", "!=", r"^Option::Some\{0: zalsa::Zalsa::current_revision\(\$2\)\}$"), "write lock taken only if the struct was not updated/read in the current revision")
    cx.only_if(u, lock[0], CallIs(r"^std::option::Option::<T>::is_some$", True, [lw + "$"]), "write lock taken only if the lock word is Some")
    uf = cx.one_call(u, r"^tracked_struct::Configuration::update_fields$", "C::update_fields call")
    cx.order(lock[0], uf, "fields are compared/replaced only under the write lock")
    cx.only_if(u, uf, Cmp(lw + "$", "==", r"OptionalAtomicRevision::swap\(.*Option::None\{\}\)$"), "the swap must have returned the value just loaded (no concurrent access)")
    cx.order(uf, unlock[0], "the lock is released after the update")
    for s in cx.ret_sites(u, "Ok"):
        if u.reaches(lock[0], s):
            cx.check(u.site_dominates(unlock[0], s) or not u.reaches(lock[0], s), "Ok after taking the write lock only after releasing it", s, key="unlock-before-ok")
    r = cx.fn(r"^tracked_struct::acquire_read_lock$")
    cas = r.calls(r"compare_exchange")
    sts = r.calls(r"OptionalAtomicRevision::(store|swap)$")
    cx.check(not sts, "acquire_read_lock never blindly stores into the lock word", sts[0] if sts else None, key="no-blind-store", body=r)
    # losing the compare_exchange to ANOTHER READER of the same revision is normal: the function must look again
    # (loop), not panic and not proceed without having observed Some(current_revision)
    cx.check(bool(r.back_edges()), "a reader that loses the compare_exchange race retries (loop)", (cas or [None])[0], key="read-lock-retries", body=r)
    cx.sites(cas, 1, "compare_exchange in acquire_read_lock")
    for c in cas:
        cx.flow(r, cx.arg(c, 1), [r"^Option::Some\{0: .*\}$|^revision::OptionalAtomicRevision::load\(\$1\)$|Some"], [r"^Option::None\{\}$"], "the expected value of the CAS is a Some(revision), never None", c)


@ob("C07.4", ["C07", "C25"], "an identity comparison that ignores the generation treats a reclaimed slot's new occupant as the old value", kind="TABLE")
def c07_4(cx):
    """Id's PartialEq/Hash cover index and generation (derived / as_bits); QueryEdge equality is derived over all fields and its constructors copy the key's generation; DatabaseKeyIndex equality is derived."""
    f = cx.facts
    b = cx.fn(r"^id::Id::generation$")
    cx.check(f.is_derived(r"^std::cmp::PartialEq$", r"^id::Id$"), "Id: PartialEq is derived", body=b, key="id-eq")
    flds = [n for n, _ in f.adts["id::Id"]["variants"][0]["fields"]]
    cx.check(set(flds) == {"index", "generation"}, "Id consists of index and generation", body=b, detail={"fields": flds}, key="id-fields")
    cx.check(f.is_derived(r"^std::cmp::PartialEq$", r"^key::DatabaseKeyIndex$") and f.is_derived(r"^std::hash::Hash$", r"^key::DatabaseKeyIndex$"), "DatabaseKeyIndex: PartialEq and Hash are derived", body=b, key="dki-eq")
    h = [i for i in f.impls_of(r"^std::hash::Hash$", r"^id::Id$")]
    cx.require(len(h) == 1, "Hash impl for Id")
    if not h[0]["derived"]:
        hb = cx.fn(r"^<id::Id as std::hash::Hash>::hash$")
        cx.check(bool(hb.calls(r"^id::Id::as_bits$")) or any("generation" in x[2] for x in []), "Id's manual Hash hashes as_bits() (index and generation)", body=hb, key="id-hash")
        ab = cx.fn(r"^id::Id::as_bits$")
        o = ab.origin_local(0)
        cx.check("generation" in o and "index" in o, "as_bits combines index and generation", body=ab, detail={"origin": o}, key="as-bits")
    cx.check(f.is_derived(r"^std::cmp::PartialEq$", r"^zalsa_local::QueryEdge$"), "QueryEdge: PartialEq is derived", body=b, key="edge-eq")
    for name in ("input", "output"):
        qb = cx.fn(r"^zalsa_local::QueryEdge::%s$" % name)
        o = qb.origin_local(0)
        cx.flow(qb, o, [r"generation: id::Id::generation\(key::DatabaseKeyIndex::key_index\(\$1\)\)"], [r"generation: const:"], "QueryEdge::%s copies the key's generation" % name)
        cx.flow(qb, o, [r"index: id::Id::index\(key::DatabaseKeyIndex::key_index\(\$1\)\)"], [r"index: const:"], "QueryEdge::%s copies the key's slot index" % name)


@ob("C07.5", ["C07", "C23", "C01"], "the read lock (updated_at := current revision) is what forbids deleting / recycling a tracked struct while a reader of this revision may hold references into it; a field or memo-table access that skips it races with delete_entity and slot reuse", kind="ORDER+FLOW (every reader takes the read lock first)")
def c07_5(cx):
    """tracked_field / untracked_field obtain the fields only through lock_fields(data of the id asked, current_revision); lock_fields calls acquire_read_lock(&data.updated_at, current_revision) before it exposes &data.fields; Slot::memos takes the read lock before handing out the memo table; tracked_field reads the field stamp and durability after the lock."""
    lf = cx.fn(TS + r"lock_fields$")
    al = cx.one_call(lf, r"^tracked_struct::acquire_read_lock$", "acquire_read_lock in lock_fields")
    cx.check(cx.facts.must_call(lf, r"^tracked_struct::acquire_read_lock$"), "lock_fields takes the read lock on every path", al, key="lock-always")
    a = cx.args(al)
    cx.flow(lf, a[0], [r"^\$2\.updated_at$"], [], "on the lock word of the struct whose fields are exposed", al)
    cx.flow(lf, a[1], [r"^\$3$"], [r"^const:", r"Revision::start"], "for the revision given", al)
    cx.flow(lf, lf.origin_local(0), [r"^transmute\(\$2\.fields\)$"], [], "and exposes that struct's fields")
    for name in ("tracked_field", "untracked_field"):
        b = cx.fn(TS + name + r"$")
        c = cx.one_call(b, TS + r"lock_fields$", "lock_fields in " + name)
        ca = cx.args(c)
        cx.flow(b, ca[1], [r"^tracked_struct::IngredientImpl::<C>::data_raw\(zalsa::Zalsa::table\(\$2\), <.* as id::AsId>::as_id\(\$[34]\)\)$"], [], "%s locks the slot of the struct asked" % name, c)
        cx.flow(b, ca[2], [r"^zalsa::Zalsa::current_revision\(\$2\)$"], [r"^const:", r"Revision::start"], "%s locks for the current revision" % name, c)
        cx.flow(b, b.origin_local(0), [r"^tracked_struct::IngredientImpl::<C>::lock_fields\("], [r"\.fields\)?$"], "%s returns the fields obtained under the lock" % name)
    t = cx.fn(TS + r"tracked_field$")
    c = cx.one_call(t, TS + r"lock_fields$", "lock_fields in tracked_field")
    rep = cx.one_call(t, r"^zalsa_local::ZalsaLocal::report_tracked_read_simple$", "read report in tracked_field")
    cx.order(c, rep, "the field stamp and durability are read (and reported) after the read lock was taken")
    sm = cx.fn(r"^<tracked_struct::Value<C> as table::Slot>::memos$")
    al2 = cx.one_call(sm, r"^tracked_struct::acquire_read_lock$", "acquire_read_lock in Slot::memos")
    cx.check(cx.facts.must_call(sm, r"^tracked_struct::acquire_read_lock$"), "the memo table of a tracked struct is handed out only under the read lock", al2, key="memos-locked")
    cx.flow(sm, cx.arg(al2, 1), [r"^\$2$"], [r"^const:"], "for the revision given", al2)
    # no other body reads `.fields` of a tracked Value without a lock / &mut / the write lock of update
    n = 0
    for b in cx.facts.all_bodies():
        if not b.file.endswith("tracked_struct.rs") or "persistence" in b.path or "test" in b.path:
            continue
        for s in b.all_sites():
            if s.is_term():
                continue
            nd = s.node()
            if nd["k"] != "assign" or nd["rv"]["k"] not in ("ref", "addr", "use"):
                continue
            try:
                o = b._origin_def(s, "assign", nd, 0, None, ())
            except Exception:
                continue
            if not re.search(r"data_raw\(.*\)\.fields$|^\$\d+\.fields$", o):
                continue
            if "Value" not in " ".join(b.info.get("inputs", [])) and "data_raw" not in o:
                continue
            n += 1
            ok = bool(re.search(r"::(lock_fields|update|allocate|new_struct|memory_usage|fields|leak_fields)$|Serialize|Deserialize|heap_size|Slot>::|drop", b.path))
            cx.check(ok, "the fields of a tracked struct are touched only by lock_fields (read lock), update (write lock) or whole-value code", s, {"origin": o[:120]}, key="fields-access " + b.path)
    cx.note("field-access census: %d sites" % n)


@ob("C06.7", ["C06", "C05", "C23"], "outputs (tracked structs, specified values) are owned by the memo that created them; a reconciliation or deletion cascade that skips some memos (untracked ones, value-less evicted ones) leaves their structs allocated, enumerated and memoized forever", kind="ONLYIF (early exits of the output walks)")
def c06_7(cx):
    """diff_outputs gives up before reporting stale outputs only for an Assigned old memo (both Derived and DerivedUntracked memos are reconciled) or when there is nothing stale; MemoHeader::remove_outputs visits every output edge and every tracked struct id of the memo unconditionally (also for a memo whose value was evicted); the generic Memo::remove_outputs forwards to it on every path."""
    d = cx.fn(r"^function::diff_outputs::<impl function::memo::MemoHeader>::diff_outputs$")
    reps = cx.some_calls(d, r"^function::diff_outputs::report_stale_output$", 2, "report_stale_output sites")
    first = [r for r in reps if all(r == o or not d.reaches(o, r) or d.reaches(r, o) for o in reps)]
    # returns that are reached without ever looking at the stale tracked structs: only for Assigned
    loops = cx.for_loops(d)
    cx.require(len(loops) >= 2, "diff_outputs: loops over stale structs / stale outputs")
    hdr = min(loops, key=lambda l: l[0].line() if callable(l[0].line) else l[0].line)[0]
    eng = OnlyIf(cx.facts, d)
    asg = VariantIn(r"MemoHeader::origin\(\$1\)$", {"Assigned"}, desc="old memo is Assigned")
    e = eng.establishing_edges(asg)
    reach = d.reachable(0, "normal", cut_edges=e, cut_blocks={hdr.bb})
    bad = [r for r in d.return_blocks() if r in reach]
    cx.check(not bad, "diff_outputs skips the reconciliation only for an Assigned old memo (Derived AND DerivedUntracked memos own outputs)", hdr, {"returns_reached": bad}, key="diff-early-exit")
    r = cx.fn(r"^function::memo::MemoHeader::remove_outputs$")
    loops = cx.for_loops(r)
    cx.require(len(loops) == 2, "remove_outputs: two loops (output edges, tracked struct ids)")
    rs = cx.some_calls(r, r"^key::DatabaseKeyIndex::remove_stale_output$", 2, "remove_stale_output calls")
    for nx, some_bb, none_bb in loops:
        mine = [s for s in rs if s.bb in r.reachable(some_bb, "normal", cut_blocks={nx.bb})]
        cx.for_each(r, nx, mine, "remove_outputs loop at line %s" % r.blocks[nx.bb]["term"].get("ln"))
    first_hdr = [l[0] for l in loops if all(l[0] == o[0] or r.reaches(l[0], o[0]) for o in loops)]
    cx.require(len(first_hdr) == 1, "first loop of remove_outputs")
    reach = r.reachable(0, "normal", cut_blocks={first_hdr[0].bb})
    cx.check(not [x for x in r.return_blocks() if x in reach], "remove_outputs has no early exit (a value-less memo still owns its outputs)", first_hdr[0], key="remove-no-early-exit")
    for g in cx.fns(r"^<function::memo::Memo<C> as table::memo::Memo>::remove_outputs$", 1):
        cx.check(cx.facts.must_call(g, r"^function::memo::MemoHeader::remove_outputs$"), "Memo::remove_outputs always forwards to the header walk", body=g, key="forward-always")
