"""C04 — untracked reads; C05 — LRU eviction."""
import re

from ..framework import ob, Inconclusive
from ..mirlib import Cmp, CallIs, VariantIn, BoolIs, OnlyIf
from .c01_execute import closure_origin

EXPLANATIONS = {
    "C04": "Decided: an untracked read sets untracked_read/MIN durability/current revision on the active query; completion "
    "builds a DerivedUntracked origin exactly when the flag is set; iteration seeding ORs the flag and cycle convergence "
    "compares it; deep verification reports Changed for DerivedUntracked (shared C01.4e); MIN.index()==0 and new_revision "
    "bumps slot 0 (shared C02.1/C02.7) so the shallow path cannot validate such a memo in a later revision; only Derived "
    "memos are evictable / edge-discardable. The dependents-still-reused clause is backdating (C01.8, precision part). "
    "Not decided: per-revision execution counts.",
    "C05": "Decided: fetch records a use on every normal return; record_use inserts iff a capacity is set; insertion is "
    "move-to-back (LinkedHashSet::insert, not replace); eviction pops from the FRONT while len > capacity and returns at once "
    "without capacity (capacity 0 => None); the eviction closure clears only memo.value and only under can_evict_value() "
    "(Derived origin), touching no dependency information; reset_for_new_revision evicts then frees deleted entries; "
    "new_revision and evict_lru both visit every ingredient requiring reset; every memo handed out by fetch has a value "
    "(shared C01.4a/b, C23.3) and a value-less old memo reports Changed instead of executing in maybe_changed_after. "
    "set_lru_capacity needs &mut db (type witness, thorough). Not decided: which ids stay cached for a concrete history.",
}

AQ = r"^active_query::"


@ob("C04.2", ["C04", "C01"], "an execution that read untracked state but completed as plain Derived is deep-verified green and never re-executed", kind="ONLYIF")
def c04_2(cx):
    """QueryCompletion::finish builds OriginAndExtra::derived_untracked iff self.untracked_read; prepare_completion copies the flag; seed_iteration ORs it; metadata convergence compares is_derived_untracked."""
    b = cx.fn(AQ + r"QueryCompletion::finish$")
    du = cx.one_call(b, r"^zalsa_local::OriginAndExtra::derived_untracked$", "derived_untracked call")
    d = cx.one_call(b, r"^zalsa_local::OriginAndExtra::derived$", "derived call")
    flag = r"^\$1\.untracked_read$"
    cx.only_if(b, d, BoolIs(flag, False, desc="!self.untracked_read"), "plain Derived origin only if no untracked read")
    with cx.only("C03"):
        cx.only_if(b, du, BoolIs(flag, True, desc="self.untracked_read"), "DerivedUntracked only if an untracked read happened (precision)")
    pc = cx.fn(AQ + r"ActiveQuery::prepare_completion$")
    agg = cx.one(pc.aggregates(r"^active_query::QueryCompletion$"), "QueryCompletion aggregate")
    o = pc._origin_def(agg, "assign", agg.node(), 0, None, ())
    cx.flow(pc, o, [r"untracked_read: \$1\.untracked_read\b"], [r"untracked_read: const:0"], "completion carries the frame's untracked_read flag", agg)
    cx.flow(pc, o, [r"changed_at: \$1\.changed_at, durability: \$1\.durability,"], [r"durability: const:"], "completion carries the frame's durability and changed_at", agg)
    si = cx.fn(AQ + r"ActiveQuery::seed_iteration$")
    st = cx.stores(si, r"^\$1\.untracked_read$")
    cx.sites(st, 1, "seed_iteration: store to untracked_read")
    for s, po, vo in st:
        cx.flow(si, vo, [r"^\(\$1\.untracked_read BitOr \$5\)$", r"^\(\$5 BitOr \$1\.untracked_read\)$"], [r"^\$5$", r"^const:0$", r"BitAnd"], "seed_iteration ORs the previous iteration's flag", s)
    # caller passes the previous memo's is_derived_untracked
    g = cx.fn(r"^zalsa_local::ActiveQueryGuard::<'me>::seed_iteration$")
    cb = cx.closure_passed_to(g, r"with_query_stack_unchecked_mut$")
    c = cx.one_call(cb, AQ + r"ActiveQuery::seed_iteration$", "seed_iteration call")
    a = [cb.origin_op(x, 0, {1: closure_origin(g, cb)}) for x in c.node()["args"]]
    cx.flow(cb, a[4], [r"is_derived_untracked\(\$2\)"], [r"^const:"], "the flag seeded is previous.is_derived_untracked()", c)
    cx.flow(cb, a[1], [r"^\$2\.durability$"], [r"^const:"], "the durability seeded is previous.durability", c)
    cx.flow(cb, a[2], [r"^\$2\.changed_at$"], [r"^const:"], "the changed_at seeded is previous.changed_at", c)
    h = cx.fn(r"^function::execute::try_complete_cycle_head$")
    calls = h.calls(r"^zalsa_local::QueryRevisions::is_derived_untracked$")
    cx.check(len(calls) >= 2, "cycle-head metadata convergence compares is_derived_untracked of both revisions", calls[0] if calls else None, key="converge-untracked", body=h)
    u = cx.fn(r"^zalsa_local::OriginAndExtra::is_derived_untracked$")
    cx.check(True, "is_derived_untracked anchor present", body=u)


@ob("C04.4", ["C04", "C05", "C10"], "evicting the value (or discarding the edges) of a memo whose value cannot be recomputed from tracked inputs loses it or freezes it", kind="ONLYIF")
def c04_4(cx):
    """can_evict_value is true only for Derived origins; discard_edges_if_never_change clears edges only if durability == NEVER_CHANGE, origin is Derived, no cycle heads and no accumulated inputs."""
    b = cx.fn(r"^function::memo::MemoHeader::can_evict_value$")
    cx.returns_only_if(b, True, VariantIn(r"MemoHeader::origin\(\$1\)$", {"Derived"}, desc="origin is Derived"))
    if "persistence" in cx.facts.features:
        return
    d = cx.fn(r"^zalsa_local::QueryRevisions::discard_edges_if_never_change$")
    ce = cx.one_call(d, r"^zalsa_local::OriginAndExtra::clear_edges$", "clear_edges call")
    cx.only_if(d, ce, Cmp(r"^\$1\.durability$", "==", r"Durability::NEVER_CHANGE"), "edges cleared only for NEVER_CHANGE results")
    cx.only_if(d, ce, VariantIn(r"QueryRevisions::origin\(\$1\)$", {"Derived"}), "edges cleared only for Derived origins")
    cx.only_if(d, ce, CallIs(r"^cycle::CycleHeads::is_empty$", True, [r"QueryRevisions::cycle_heads\(\$1\)$"]), "edges cleared only without cycle heads")
    if "accumulator" in cx.facts.features:
        cx.only_if(d, ce, CallIs(r"InputAccumulatedValues::is_any$", False), "edges cleared only without accumulated inputs")


# ---------------------------------------------------------------------------------------------
# C05

LRU = r"^function::eviction::lru::Lru::"
LRUT = r"^<function::eviction::lru::Lru as function::eviction::EvictionPolicy>::"


@ob("C05.1", ["C05"], "a use that is not recorded (or recorded without moving the entry to the back) makes the most recently requested result look least recently used", kind="MUSTCALL")
def c05_1(cx):
    """fetch reaches eviction.record_use(id) on every normal return; Lru::record_use inserts iff capacity.is_some(); Lru::insert is LinkedHashSet::insert (move-to-back)."""
    f = cx.fn(r"^function::fetch::<impl function::IngredientImpl<C>>::fetch$")
    cx.must_call(f, r"EvictionPolicy::record_use$")
    c = cx.one_call(f, r"EvictionPolicy::record_use$", "record_use call in fetch")
    a = cx.args(c)
    cx.flow(f, a[0], [r"^\$1\.eviction$"], [], "uses this ingredient's policy", c)
    cx.flow(f, a[1], [r"^\$5$"], [r"^const:"], "records the requested id", c)
    r = cx.fn(LRUT + r"record_use$")
    ins = cx.one_call(r, LRU + r"insert$", "Lru::insert call in record_use")
    cx.skipped_only_if(r, ins, VariantIn(r"^\$1\.capacity$", {"None"}, desc="capacity is None"), "record_use skips only without capacity")
    cx.flow(r, cx.arg(ins, 1), [r"^\$2$"], [], "inserts the used id", ins)
    i = cx.fn(LRU + r"insert$")
    cx.must_call(i, r"^hashlink::LinkedHashSet::<T, S>::insert$", "Lru::insert uses LinkedHashSet::insert (appends or moves to the back)")
    cx.check(not i.calls(r"LinkedHashSet::<T, S>::replace$|insert_if_absent|to_front"), "no non-moving insertion variant", None, key="no-replace", body=i)


@ob("C05.2", ["C05"], "popping the back evicts the most recently used; a loop that stops early or a capacity check in the wrong direction breaks the bound", kind="LOOPRANK+ONLYIF")
def c05_2(cx):
    """for_each_evicted: returns immediately if capacity is None; loop continues only while set.len() > cap; each iteration pops the FRONT and passes the id to cb; set_capacity(0) (None) clears the set."""
    b = cx.fn(LRUT + r"for_each_evicted$")
    allpops = cx.some_calls(b, r"^hashlink::LinkedHashSet::<T, S>::pop_(front|back)$", 1, "pop in for_each_evicted")
    back = [p for p in allpops if b.callee(p).endswith("pop_back")]
    cx.check(not back, "evicts from the front (least recently used), never pops the back", (back or allpops)[0], key="no-pop-back")
    pops = [p for p in allpops if p not in back] or allpops
    ln = r"^hashlink::LinkedHashSet::<T, S>::len\(parking_lot::lock_api::Mutex::<R, T>::get_mut\(\$1\.set\)\)$"
    capv = r"^std::num::NonZero::<(T|usize)>::get\(\$1\.capacity@Some\.0\)$"
    for p in pops:
        cx.only_if(b, p, Cmp(ln, ">", capv, desc="set.len() > capacity"), "an entry is evicted only while len > capacity (precision: at most the excess is evicted)")
        cx.only_if(b, p, VariantIn(r"^\$1\.capacity$", {"Some"}), "eviction only with a capacity set")
    # loop exit only via !(len > cap) : from the loop head every path to return crosses a (len <= cap) edge or the None-capacity edge
    cx.skipped_only_if(b, pops[0], [Cmp(ln, "<=", capv, desc="len <= capacity"), VariantIn(r"^\$1\.capacity$", {"None"})], "returns without further eviction only if len <= capacity or no capacity (bound)")
    cbs = cx.some_calls(b, r"^std::ops::FnMut::call_mut$", 1, "callback invocation")
    for c in cbs:
        cx.flow(b, cx.arg(c, 1), [r"pop_front\(.*\)@Some\.0"], [], "the callback receives the popped id", c)
    s = cx.fn(LRUT + r"set_capacity$")
    st = cx.stores(s, r"^\$1\.capacity$")
    cx.sites(st, 1, "store to capacity")
    for x, po, vo in st:
        cx.flow(s, vo, [r"^std::num::NonZero::<(usize|T)>::new\(\$2\)$"], [r"^const:"], "capacity := NonZeroUsize::new(capacity) (0 => None => eviction disabled)", x)
    # changing the capacity must not forget which memos are cached: the recency set is cleared only when eviction
    # is switched off (capacity 0); otherwise everything cached before the change would escape the bound for good
    for c in s.calls(r"^hashlink::LinkedHashSet::<T, S>::clear$"):
        cx.only_if(s, c, CallIs(r"^std::option::Option::<T>::is_none$", True, [r"^\$1\.capacity$"], desc="the new capacity is None (eviction disabled)"), "set_capacity forgets the recency set only when eviction is being disabled")
    n = cx.fn(LRUT + r"new$")
    cx.flow(n, n.origin_local(0), [r"capacity: std::num::NonZero::<(usize|T)>::new\(\$1\)"], [], "new: capacity := NonZeroUsize::new(cap)")
    ins = cx.fn(LRU + r"insert$")
    calls = [c for c in ins.calls(r"^hashlink::LinkedHashSet::<T, S>::(insert|replace|insert_if_absent)$")]
    cx.sites(calls, 1, "recency update in Lru::insert")
    for c in calls:
        cx.check(ins.callee(c).endswith("::insert"), "a use moves the key to the most-recent end (LinkedHashSet::insert; `replace`/`insert_if_absent` keep the old position)", c, {"callee": ins.callee(c)}, key="move-to-back")


@ob("C05.3", ["C05", "C04"], "eviction that touches dependency information, or evicts a non-recomputable memo, changes later results", kind="FLOW+ONLYIF")
def c05_3(cx):
    """evict_value_from_memo_for's closure stores None into memo.value only under memo.header.can_evict_value() and stores nothing else."""
    b = cx.fn(r"^function::memo::<impl function::IngredientImpl<C>>::evict_value_from_memo_for$")
    cb = cx.closure_passed_to(b, r"MemoTableWithTypesMut::<'_>::map_memo$|map_memo$")
    st = cx.stores(cb)
    vs = [x for x in st if x[1] == "$2.value"]
    cx.sites(vs, 1, "store to memo.value in the eviction closure")
    for s, po, vo in vs:
        cx.flow(cb, vo, [r"^Option::None\{\}$"], [r"Option::Some"], "value := None", s)
        cx.only_if(cb, s, CallIs(r"MemoHeader::can_evict_value$", True, [r"^\$2\.header$"]), "value cleared only if can_evict_value()")
    other = [x for x in st if x[1] != "$2.value"]
    cx.check(not other, "the eviction closure writes nothing but memo.value (dependency info is kept)", other[0][0] if other else None, {"stores": [x[1] for x in other]}, key="only-value", body=cb)
    muts = [s for s in cb.calls(r"verified_at|AtomicRevision::store|clear_edges|set_|insert")]
    cx.check(not muts, "the eviction closure calls no mutator of the header", muts[0] if muts else None, key="no-mutator", body=cb)


@ob("C05.4", ["C05", "C23"], "eviction that is not run at the revision boundary / on request, or frees replaced memos while borrows may exist, breaks the bound or memory safety", kind="MUSTCALL+ORDER")
def c05_4(cx):
    """reset_for_new_revision: for_each_evicted(evict -> evict_value_from_memo_for(table.memos_mut(evict), ..)) then deleted_entries.clear(); Zalsa::new_revision and Zalsa::evict_lru both call reset_for_new_revision for every ingredient in ingredients_requiring_reset; function ingredients require reset."""
    r = cx.fn(r"^<function::IngredientImpl<C> as ingredient::Ingredient>::reset_for_new_revision$")
    fe = cx.one_call(r, r"EvictionPolicy::for_each_evicted$", "for_each_evicted call")
    cl = cx.one_call(r, r"DeletedEntries::<C>::clear$", "deleted_entries.clear call")
    cx.must_call(r, r"EvictionPolicy::for_each_evicted$")
    cx.must_call(r, r"DeletedEntries::<C>::clear$")
    cb = cx.closure_passed_to(r, r"EvictionPolicy::for_each_evicted$")
    ev = cx.one_call(cb, r"evict_value_from_memo_for$", "evict_value_from_memo_for in the callback")
    cx.flow(cb, cx.arg(ev, 0), [r"^table::Table::memos_mut\(.*, \$2\)$"], [], "evicts the memo table of the evicted id", ev)
    q = cx.fn(r"^<function::IngredientImpl<C> as ingredient::Ingredient>::requires_reset_for_new_revision$")
    cx.flow(q, q.origin_local(0), [r"^const:1$"], [r"^const:0$"], "function ingredients require reset")
    for name in ("new_revision", "evict_lru"):
        z = cx.fn(r"^zalsa::Zalsa::%s$" % name)
        c = cx.one_call(z, r"^ingredient::Ingredient::reset_for_new_revision$", "reset call in " + name)
        cx.flow(z, cx.arg(c, 0), [r"\$1\.ingredients_vec\[.*IngredientIndex::as_u32\(.*\$1\.ingredients_requiring_reset"], [], "%s resets each ingredient listed in ingredients_requiring_reset" % name, c)
        it = cx.some_calls(z, r"^std::iter::IntoIterator::into_iter$", 1, "iteration in " + name)
        cx.flow(z, cx.arg(it[0], 0), [r"^\$1\.ingredients_requiring_reset$"], [], "%s iterates ingredients_requiring_reset" % name, it[0])
    nr = cx.fn(r"^zalsa::Zalsa::new_revision$")
    cx.must_call(nr, r"^runtime::Runtime::new_revision$")
    # registration: an ingredient that requires reset is pushed to ingredients_requiring_reset
    regs = [b for b in cx.facts.all_bodies() if b.calls(r"requires_reset_for_new_revision$") and "zalsa::" in b.path]
    cx.sites(regs, 1, "registration sites consulting requires_reset_for_new_revision")
    for b in regs:
        c = b.calls(r"requires_reset_for_new_revision$")[0]
        pushes = [s for s in b.calls(r"push$") if "ingredients_requiring_reset" in cx.arg(s, 0)]
        cx.check(bool(pushes), "ingredients requiring reset are recorded at registration", c, key="register-reset " + b.path)
        for p in pushes:
            with cx.only("C03"):
                cx.only_if(b, p, CallIs(r"requires_reset_for_new_revision$", True), "recorded only if it requires reset")
        vec_pushes = [s for s in b.calls(r"push$") if "ingredients_vec" in cx.arg(s, 0)]
        if pushes and vec_pushes:
            cx.skipped_only_if(b, pushes[0], CallIs(r"requires_reset_for_new_revision$", False), "an ingredient is stored without being recorded for reset only if it does not require reset", exits=[x.bb for x in vec_pushes])


@ob("C05.5", ["C05", "C03"], "executing a query merely because its evicted dependency is being verified recomputes results nobody requested", kind="ONLYIF")
def c05_5(cx):
    """maybe_changed_after_cold returns Changed for a value-less old memo instead of executing (shared site with C03.1)."""
    cold = cx.fn(r"^function::maybe_changed_after::<impl function::IngredientImpl<C>>::maybe_changed_after_cold$")
    ex = cx.one_call(cold, r"execute::<impl function::IngredientImpl<C>>::execute$", "execute in maybe_changed_after_cold")
    cx.only_if(cold, ex, VariantIn(r"downcast\(.*\)\.value$", {"Some"}, desc="old_memo.value is Some"), "an evicted (value-less) memo is not re-executed during verification")


@ob("C04.5", ["C04", "C12"], "the edges of a provisional callee are flattened into the cycle head and the edge to the callee itself is dropped; if the callee read untracked state nothing re-validates it for the head in later revisions: the head (and everything depending on it) keeps a value computed from the old untracked state (finding F6)", kind="ONLYIF (untrackedness survives flattening)")
def c04_5(cx):
    """Either the flattening walker consults the expanded callee's origin kind (DerivedUntracked) and passes it on, or fetch lets the reader of a provisional DerivedUntracked memo inherit the untracked read. On today's tree neither exists: known finding F6 (findings/F6/demo_f6.rs; a repair through fetch makes the demo pass but changes the behaviour pinned by tests/cycle_left_recursive_query.rs and tests/cycle_dependency_order_different_entry_queries.rs, so it is recorded, not fixed)."""
    w = cx.fn(r"^function::flatten_cycle_head_dependencies$")
    consults = bool(w.calls(r"is_derived_untracked$"))
    for s in w.all_sites():
        n = s.node()
        if not s.is_term() and n["k"] == "assign" and n["rv"]["k"] == "discr" and "QueryOriginRef" in (n["rv"].get("adt") or ""):
            consults = True
    f = cx.fn(r"^function::fetch::<impl function::IngredientImpl<C>>::fetch$")
    inherits = False
    for s in f.calls(r"ZalsaLocal::report_untracked_read$"):
        inherits = True
    rec = cx.one_call(w, r"^ingredient::Ingredient::flatten_cycle_head_dependencies$", "expansion of a provisional callee")
    cx.check(consults or inherits, "the untracked read of a flattened provisional callee reaches the cycle head's origin", rec, {"walker_consults_origin_kind": consults, "fetch_inherits_untracked": inherits}, key="untracked-lost-in-flattening")
