"""Macro layer (specimen crate): generated setters/getters, update_fields, Configuration constants."""
import re

from ..framework import ob, Inconclusive
from ..mirlib import Cmp, CallIs, VariantIn, BoolIs, OnlyIf


def needs_specimen(fn):
    fn._needs_specimen = True
    return fn


def spec(cx):
    if cx.specimen is None:
        raise Inconclusive("specimen facts unavailable")
    return cx.specimen


@ob("C01.9", ["C01", "C02", "C20"], "a setter that writes without first starting a new revision (or a getter/setter pair that disagree on the field index) changes a value that memos verified in the current revision have already read", kind="ORDER+FLOW (expanded macros)")
@needs_specimen
def c01_9(cx):
    """Generated input setter: zalsa_mut() -> ingredient_mut() (which calls Zalsa::new_revision before handing out the ingredient) -> SetterImpl::new(runtime, id, FIELD_INDEX, ingredient, ..); the generated getter reads IngredientImpl::field(.., FIELD_INDEX) and projects the same tuple element; SetterImpl::to forwards to set_field with that index."""
    s = spec(cx)
    for struct, fields in (("InTwo", ["a", "b"]), ("InOne", ["a"])):
        im = cx.fn(r"^_::<impl %s>::ingredient_mut$" % struct, s)
        nr = cx.one_call(im, r"Zalsa::new_revision$", "%s::ingredient_mut: new_revision" % struct)
        lk = cx.one_call(im, r"Zalsa::lookup_ingredient_mut$", "%s::ingredient_mut: lookup_ingredient_mut" % struct)
        cx.order(nr, lk, "%s: a new revision starts before the ingredient is handed out mutably" % struct)
        cx.must_call(im, r"Zalsa::new_revision$")
        for idx, fld in enumerate(fields):
            st = cx.fn(r"^_::<impl %s>::set_%s$" % (struct, fld), s)
            zm = cx.one_call(st, r"ZalsaDatabase::zalsa_mut$", "set_%s: zalsa_mut" % fld)
            ig = cx.one_call(st, r"^_::<impl %s>::ingredient_mut$" % struct, "set_%s: ingredient_mut" % fld)
            new = cx.one_call(st, r"SetterImpl::<'setter, C, S, F>::new$", "set_%s: SetterImpl::new" % fld)
            cx.order(zm, ig, "set_%s: exclusive access (zalsa_mut: cancels other handles) is obtained first" % fld)
            cx.order(ig, new, "set_%s: the setter is built from the ingredient obtained after new_revision" % fld)
            a = cx.args(new)
            cx.flow(st, a[2], [r"^const:%d$" % idx], [r"^const:\d+$"], "set_%s writes field index %d" % (fld, idx), new)
            cx.flow(st, a[1], [r"^\$1$"], [], "set_%s writes the struct it was called on" % fld, new)
            cb = cx.closure_passed_to(st, r"SetterImpl::<'setter, C, S, F>::new$", s)
            ro = cb.origin_local(0)
            cx.flow(cb, ro, [r"^std::mem::replace(::<[^()]*>)?\(\$2\.%d, \$3\)$" % idx], [r"\$2\.(?!%d\b)\d" % idx], "set_%s's closure replaces tuple element %d" % (fld, idx))
            g = cx.fn(r"^_::<impl %s>::%s$" % (struct, fld), s)
            fc = cx.one_call(g, r"input::IngredientImpl::<C>::field$", "%s getter: field()" % fld)
            a = cx.args(fc)
            cx.flow(g, a[4], [r"^const:%d$" % idx], [r"^const:\d+$"], "%s getter reports a read of field index %d" % (fld, idx), fc)
            cx.flow(g, a[3], [r"^\$1$"], [], "%s getter reads the struct it was called on" % fld, fc)
            cx.flow(g, g.origin_local(0), [r"field\(.*\)\.%d\b" % idx], [r"field\(.*\)\.(?!%d\b)\d" % idx], "%s getter returns tuple element %d" % (fld, idx))
    to = cx.fn(r"^<input::setter::SetterImpl<'_, C, S, F> as input::setter::Setter>::to$")
    sf = cx.one_call(to, r"^input::IngredientImpl::<C>::set_field$", "set_field in Setter::to")
    a = cx.args(sf)
    cx.check(a[1].endswith(".runtime") and a[2].endswith(".id") and a[3].endswith(".field_index") and a[4].endswith(".durability"), "Setter::to forwards (runtime, id, field_index, durability) to set_field", sf, {"args": [x[-40:] for x in a]}, key="to-forward")
    wd = cx.fn(r"^<input::setter::SetterImpl<'_, C, S, F> as input::setter::Setter>::with_durability$")
    stv = cx.stores(wd, r"\.durability$")
    cx.sites(stv, 1, "with_durability store")
    cx.flow(wd, stv[0][2], [r"^Option::Some\{0: \$2\}$"], [r"Option::None"], "with_durability records Some(durability)", stv[0][0])


@ob("C01.10", ["C01", "C07", "C06"], also=["C02", "C03"], nec="a recreated tracked struct whose changed field keeps its old revision (or whose identity fields are only partly overwritten) serves old data to readers", kind="MUSTCALL+ONLYIF (expanded macros)")
@needs_specimen
def c01_10(cx):
    """Generated update_fields: update_field(&mut old.k, new.k, eq_k) is executed for EVERY field on every path (no short-circuit); for tracked field k with relative index r, revisions[r].store(current_revision) happens iff that call returned true; the result is the OR of the identity fields' results; update_field replaces and returns true iff !eq; tracked_struct allocate/update stamp new_revisions(current_deps.changed_at) and current_deps.durability."""
    s = spec(cx)
    b = cx.fn(r"TsMixed<'static>>::update_fields$", s)
    ufs = cx.some_calls(b, r"plumbing::update_field$|tracked_struct::update_field$", 4, "update_field calls (2 identity + 2 tracked)", )
    rets = b.return_blocks()
    for c in ufs:
        a = cx.args(c)
        m0 = re.match(r"^\$3\.(\d+)$", a[0])
        m1 = re.match(r"^\$4\.(\d+)$", a[1])
        cx.check(bool(m0 and m1 and m0.group(1) == m1.group(1)), "update_field compares old.k with new.k for the same k", c, {"args": a[:2]}, key="same-field")
        reach = b.reachable(0, "normal", cut_blocks={c.bb})
        cx.check(not any(r in reach for r in rets), "update_field for field %s runs on every path (no short-circuit)" % (m0.group(1) if m0 else "?"), c, key="always-runs " + a[0])
    stores = cx.some_calls(b, r"AtomicRevision::store$", 2, "revision stores")
    tracked = {"2": 0, "3": 1}
    seen = set()
    for st in stores:
        a = cx.args(st)
        m = re.match(r"^\$2\[const:(\d+)\]$", a[0])
        cx.require(m is not None, "revision store target %r" % a[0])
        r = int(m.group(1))
        cx.flow(b, a[1], [r"^\$1$"], [r"^const:"], "the field's revision becomes the current revision passed in", st)
        abs_k = [k for k, v in tracked.items() if v == r]
        cx.require(len(abs_k) == 1, "relative index %d" % r)
        seen.add(r)
        lit_t = CallIs(r"update_field$", True, [r"^\$3\.%s$" % abs_k[0]], desc="update_field(old.%s, ..) returned true" % abs_k[0])
        with cx.only("C03"):
            cx.only_if(b, st, lit_t, "revisions[%d] is bumped only if field %s changed (precision)" % (r, abs_k[0]))
        cx.skipped_only_if(b, st, CallIs(r"update_field$", False, [r"^\$3\.%s$" % abs_k[0]]), "revisions[%d] is bumped whenever field %s changed" % (r, abs_k[0]))
    cx.check(seen == {0, 1}, "every tracked field has its revision store", stores[0], {"seen": sorted(seen)}, key="all-tracked")
    ro = b.origin_local(0)
    cx.check(all(re.search(r"update_field\(\$3\.%d, " % k, ro) for k in (0, 1)) and not re.search(r"update_field\(\$3\.[23], ", ro), "the result is the OR of the identity fields' comparisons", None, {"origin": ro[:300]}, key="or-identity", body=b)
    cx.check("BitOr" in ro and "BitAnd" not in ro, "identity results are combined with | (not &)", None, {"origin": ro[:200]}, key="bitor", body=b)
    ne = cx.fn(r"TsNoEq<'static>>::update_fields$", s)
    for c in ne.calls(r"update_field$"):
        a = cx.args(c)
        if a[0] == "$3.1":
            m = re.match(r"^closure:([^\[]+)\[", a[2])
            cx.require(m, "no_eq closure")
            kb = s.body(m.group(1))
            cx.flow(kb, kb.origin_local(0), [r"^const:0$"], [r"^const:1$"], "#[no_eq] fields compare as never-equal (always bump)", c)
    uf = cx.fn(r"^tracked_struct::update_field$")
    stv = cx.stores(uf, r"^\$1$")
    cx.sites(stv, 1, "update_field: store of the new value")
    eqc = CallIs(r"^std::ops::FnOnce::call_once$", False, desc="!values_equal(old, new)")
    cx.only_if(uf, stv[0][0], eqc, "update_field replaces only if not equal")
    cx.returns_only_if(uf, True, eqc, "update_field returns true only if it replaced")
    cx.returns_only_if(uf, False, CallIs(r"^std::ops::FnOnce::call_once$", True), "update_field returns false only if equal")
    cx.flow(uf, stv[0][2], [r"^\$2$"], [], "the new value is stored", stv[0][0])
    # runtime side: allocate / update use the creator's stamp
    al = cx.fn(r"^tracked_struct::IngredientImpl::<C>::allocate$")
    cb = None
    for site, c in cx.facts.closures_of(al):
        if c.aggregates(r"^tracked_struct::Value$"):
            cb, cs = c, site
    cx.require(cb is not None, "Value-building closure in allocate")
    agg = cb.aggregates(r"^tracked_struct::Value$")[0]
    from .c01_execute import closure_origin
    o = cb._origin_def(agg, "assign", agg.node(), 0, {1: closure_origin(al, cb)}, ())
    cx.flow(cb, o, [r"durability: \$4\.durability, revisions: <C as tracked_struct::Configuration>::new_revisions\(\$4\.changed_at\)"], [r"durability: const:", r"new_revisions\(zalsa::Zalsa::current_revision"], "a new struct is stamped with the creator's durability and changed_at", agg)
    up = cx.fn(r"^tracked_struct::IngredientImpl::<C>::update$")
    ufc = cx.one_call(up, r"^tracked_struct::Configuration::update_fields$", "update_fields call")
    cx.flow(up, cx.arg(ufc, 0), [r"^\$4\.changed_at$"], [r"^const:", r"current_revision"], "changed fields are stamped with the creator's changed_at", ufc)
    cx._only = {"C01", "C02"}
    dst = cx.stores(up, r"\.durability$")
    cx.sites(dst, 1, "durability store in update")
    cx.flow(up, dst[0][2], [r"^\$4\.durability$"], [r"^const:"], "the struct's durability follows the creator", dst[0][0])
    # durability decrease => all field revisions reset
    lt = Cmp(r"^\$4\.durability$", "<", r"\.durability$", desc="new durability < old durability")
    resets = [c for c in up.calls(r"^revision::AtomicRevision::store$")]
    cx.sites(resets, 1, "field revision reset in update")
    for r in resets:
        cx.only_if(up, r, lt, "field revisions are reset when the durability decreased")
    exits = [dst[0][0].bb]
    eng = OnlyIf(cx.facts, up)
    ge = Cmp(r"^\$4\.durability$", ">=", r"\.durability$", desc="new durability >= old durability")
    it = [c for c in up.calls(r"^std::iter::IntoIterator::into_iter$")]
    cx.require(it, "reset loop")
    cx.skipped_only_if(up, it[-1], ge, "the revision reset is skipped only if the durability did not decrease", exits=exits)
    cx._only = None


@ob("C13.3", ["C13", "C12", "C14"], "a function declared with cycle_result that is iterated (or one without cycle handling that is not treated as Panic) follows the wrong cycle protocol", kind="TABLE (expanded macros)")
@needs_specimen
def c13_3(cx):
    """Configuration::CYCLE_STRATEGY follows the options: none -> Panic, cycle_initial (with or without cycle_fn) -> Fixpoint, cycle_result -> FallbackImmediate; interned REVISIONS follows `revisions = N` (usize::MAX = IMMORTAL); no_eq -> values_equal is `false`."""
    s = spec(cx)
    want = {"f_plain": "Panic", "f_lru": "Panic", "f_fixpoint": "Fixpoint", "f_fixpoint_default": "Fixpoint", "f_fallback": "FallbackImmediate"}
    anchor = cx.fn(r"^_::<impl InOne>::a$", s)
    for fn, v in want.items():
        c = s.consts.get("<_::%s_Configuration_ as salsa::function::Configuration>::CYCLE_STRATEGY" % fn)
        cx.require(c is not None, "CYCLE_STRATEGY of %s" % fn)
        cx.check(c.get("variant") == v, "%s: CYCLE_STRATEGY == %s" % (fn, v), None, {"got": c.get("variant")}, key="strategy " + fn, body=anchor)
    for st, v in (("IntOne", 1), ("IntImmortal", (1 << 64) - 1)):
        c = s.consts.get("_::<impl salsa::interned::Configuration for %s<'static>>::REVISIONS" % st)
        cx.require(c is not None, "REVISIONS of %s" % st)
        cx.check(int(c.get("v", -1)) == v, "%s: REVISIONS == %d" % (st, v), None, {"got": c.get("v")}, key="revisions " + st, body=anchor)
    ve = cx.fn(r"^<_::f_no_eq_Configuration_ as salsa::function::Configuration>::values_equal$", s)
    cx.flow(ve, ve.origin_local(0), [r"^const:0$"], [r"^const:1$"], "no_eq: values_equal is constantly false")
    vp = cx.fn(r"^<_::f_plain_Configuration_ as salsa::function::Configuration>::values_equal$", s)
    cx.flow(vp, vp.origin_local(0), [r"PartialEq>::eq\(\$1, \$2\)$|salsa::plumbing::values_equal|values_equal\(\$1, \$2\)"], [r"^const:"], "default: values_equal compares the two values")
    # cycle_initial / recover_from_cycle wiring
    ci = cx.fn(r"^<_::f_fallback_Configuration_ as salsa::function::Configuration>::cycle_initial$", s)
    cx.check(bool(ci.calls(r"cyc_result$")), "cycle_result: cycle_initial returns the user's fallback", body=ci, key="fallback-wiring")
    cf = cx.fn(r"^<_::f_fixpoint_Configuration_ as salsa::function::Configuration>::cycle_initial$", s)
    cx.check(bool(cf.calls(r"cyc_initial$")), "cycle_initial is the user's initial function", body=cf, key="initial-wiring")
    rc = cx.fn(r"^<_::f_fixpoint_Configuration_ as salsa::function::Configuration>::recover_from_cycle$", s)
    cx.check(bool(rc.calls(r"cyc_recover$")), "cycle_fn is called by recover_from_cycle", body=rc, key="recover-wiring")


@ob("C13.2", ["C13", "C12"], "generated glue that swaps the arguments of the user's cycle functions (or substitutes another default for a missing cycle_fn) changes the value every participant of a cycle returns", kind="FLOW (expanded macros: argument wiring)")
@needs_specimen
def c13_2(cx):
    """Generated Configuration glue: cycle_initial(db, id, input) forwards (db, id, input) positionally to the user's cycle_result / cycle_initial function; recover_from_cycle(db, cycle, last, value, input) forwards all five positionally to the user's cycle_fn, and without a cycle_fn returns `value` (the new value) unchanged; execute forwards (db, input); id_to_input = FromIdWithDb::from_id(id, zalsa)."""
    s = spec(cx)
    for fn, user in (("f_fallback", r"cyc_result$"), ("f_fixpoint", r"cyc_initial$"), ("f_fixpoint_default", r"cyc_initial$")):
        b = cx.fn(r"^<_::%s_Configuration_ as salsa::function::Configuration>::cycle_initial$" % fn, s)
        c = cx.one_call(b, user, "user function in %s::cycle_initial" % fn)
        cx.check(cx.args(c) == ["$1", "$2", "$3"], "%s: cycle_initial forwards (db, id, input) in order" % fn, c, {"args": cx.args(c)}, key="initial-args " + fn)
        cx.flow(b, b.origin_local(0), [r"^cyc_(result|initial)\(\$1, \$2, \$3\)$"], [r"^const:"], "%s: and returns the user's value" % fn)
    r = cx.fn(r"^<_::f_fixpoint_Configuration_ as salsa::function::Configuration>::recover_from_cycle$", s)
    c = cx.one_call(r, r"cyc_recover$", "cycle_fn call")
    cx.check(cx.args(c) == ["$1", "$2", "$3", "$4", "$5"], "recover_from_cycle forwards (db, cycle, last_provisional, value, input) in order", c, {"args": cx.args(c)}, key="recover-args")
    cx.flow(r, r.origin_local(0), [r"^cyc_recover\(\$1, \$2, \$3, \$4, \$5\)$"], [r"^\$[34]$"], "and returns the cycle_fn's result")
    for fn in ("f_fixpoint_default", "f_fallback"):
        d = cx.fn(r"^<_::%s_Configuration_ as salsa::function::Configuration>::recover_from_cycle$" % fn, s)
        cx.flow(d, d.origin_local(0), [r"^\$4$"], [r"^\$3$", r"^const:"], "%s: without a cycle_fn the new value is kept (not the last provisional one)" % fn)
    for fn in ("f_fixpoint", "f_fallback", "f_plain"):
        e = cx.fn(r"^<_::%s_Configuration_ as salsa::function::Configuration>::execute$" % fn, s)
        c = cx.one_call(e, r"::execute::inner_$", "user body in %s::execute" % fn)
        cx.check(cx.args(c) == ["$1", "$2"], "%s: execute forwards (db, input)" % fn, c, {"args": cx.args(c)}, key="execute-args " + fn)
        i = cx.fn(r"^<_::%s_Configuration_ as salsa::function::Configuration>::id_to_input$" % fn, s)
        cx.flow(i, i.origin_local(0), [r"^<\w+ as salsa::plumbing::FromIdWithDb>::from_id\(\$2, \$1\)$"], [r"^const:"], "%s: id_to_input rebuilds the key from the id asked" % fn)
