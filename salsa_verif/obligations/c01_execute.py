"""C01.7/C01.8/C03.4/C17.4/C22.3 — execute(): ordering, backdating, memo insertion."""
import re

from ..framework import ob, Inconclusive
from ..mirlib import Cmp, CallIs, VariantIn, BoolIs, OnlyIf

F = r"^function::"
EXE = F + r"execute::<impl function::IngredientImpl<C>>::"
BD = r"function::backdate::<impl function::memo::MemoHeader>::"


def closure_origin(parent, cb):
    for s in parent.aggregates(r".*"):
        rv = s.node()["rv"]
        if rv.get("ak") == "closure" and rv.get("def") == cb.path:
            return parent._origin_def(s, "assign", s.node(), 0, None, ())
    return None


@ob("C01.7", ["C01", "C17", "C22"], "a memo inserted before the body finished (or before backdating / output diffing) publishes a value, stamp or output set that does not belong to this execution", kind="ORDER+FLOW")
def c01_7(cx):
    """execute: (execute_query -> pop | execute_maybe_iterate) precede backdate_if_appropriate, diff_outputs and the single insert_memo; the memo is Memo::new(Some(new_value), zalsa.current_revision(), completed_query.revisions); insert_memo precedes claim_guard.drop(); returns None iff drop() reported a blocking transfer."""
    b = cx.fn(EXE + r"execute$")
    eq = cx.one_call(b, EXE + r"execute_query$", "execute_query call")
    it = cx.one_call(b, EXE + r"execute_maybe_iterate$", "execute_maybe_iterate call")
    pop = cx.one_call(b, r"^zalsa_local::ActiveQueryGuard::<'me>::pop$", "active_query.pop")
    ins = cx.one_call(b, r"^function::IngredientImpl::<C>::insert_memo$", "insert_memo in execute")
    new = cx.one_call(b, r"^function::memo::Memo::<C>::new$", "Memo::new in execute")
    drop = cx.one_call(b, r"^function::sync::ClaimGuard::<'me>::drop$", "claim_guard.drop()")
    bd = cx.one_call(b, F + r"backdate::<impl function::IngredientImpl<C>>::backdate_if_appropriate$", "backdate_if_appropriate")
    do = cx.one_call(b, F + r"diff_outputs::<impl function::memo::MemoHeader>::diff_outputs$", "diff_outputs")
    cx.order(eq, pop, "C::execute (execute_query) completes before the frame is popped into revisions")
    cx.dominated_by_any(ins, [pop, it], "insert_memo only after the body completed (pop or execute_maybe_iterate)")
    cx.dominated_by_any(bd, [pop, it], "backdating only after the body completed")
    with cx.only("C22"):
        cx.order(bd, do, "backdate_if_appropriate (user PartialEq) precedes diff_outputs (destructive)")
    cx.check(not b.reaches(ins, bd) and not b.reaches(ins, do), "backdating and output diffing happen before insert_memo", ins, key="bd-before-insert")
    cx.skipped_only_if(b, bd, VariantIn(r"^\$4$", {"None"}, desc="opt_old_memo is None"), "backdating skipped only if there is no old memo", exits=[ins.bb])
    cx.skipped_only_if(b, do, VariantIn(r"^\$4$", {"None"}, desc="opt_old_memo is None"), "output diffing skipped only if there is no old memo", exits=[ins.bb])
    cx.order(ins, drop, "insert_memo precedes releasing the claim")
    a = cx.args(new)
    cx.flow(b, a[0], [r"^Option::Some\{0: phi\{.*execute_query\(.*\)\.0.*\}\}$", r"^Option::Some\{0: .*(execute_query|execute_maybe_iterate)\("], [r"^Option::None"], "memo value = Some(value computed by this execution)", new)
    cx.flow(b, a[1], [r"^zalsa::Zalsa::current_revision\(function::sync::ClaimGuard::<'me>::zalsa\(\$3\)\)$"], [r"^const:", r"Revision::start", r"verified_at"], "memo verified_at = current revision", new)
    cx.flow(b, a[2], [r"\.revisions$"], [r"\$4.*revisions", r"fixpoint_initial"], "memo revisions = this execution's completed revisions", new)
    cx.flow(b, cx.arg(ins, 3), [r"^function::memo::Memo::<C>::new\("], [], "the inserted memo is the one just built", ins)
    # backdate/diff receive the old memo and the NEW revisions
    ab = cx.args(bd)
    cx.flow(b, ab[1], [r"^\$4@Some\.0$"], [], "backdating compares against the old memo", bd)
    cx.flow(b, ab[3], [r"\.revisions$"], [], "backdating mutates the new revisions", bd)
    # result: None only if drop() is true
    for s in cx.ret_sites(b, "Some"):
        cx.only_if(b, s, CallIs(r"ClaimGuard::<'me>::drop$", False), "Some(memo) only if the claim release did not block on a transfer")
        o = b._origin_def(s, "assign", s.node(), 0, None, ())
        cx.flow(b, o, [r"^Option::Some\{0: function::IngredientImpl::<C>::insert_memo\("], [r"\$4"], "the memo returned is the one just inserted", s)
    # exactly one insert in execute; value-carrying inserts elsewhere are listed in C22.3
    # execute_query: seed before C::execute, value is C::execute's result
    q = cx.fn(EXE + r"execute_query$")
    ce = cx.one_call(q, r"^function::Configuration::execute$", "C::execute call")
    for s in cx.some_calls(q, r"seed_active_query$", 1, "seed_active_query"):
        cx.check(q.reaches(s, ce) and not q.reaches(ce, s), "old outputs/ids are seeded before the body runs, never after", s, key="seed-before-body")
        cx.flow(q, cx.arg(s, 0), [r"^\$4@Some\.0$"], [], "seeding uses the header passed by the caller", s)
    cx.skipped_only_if(q, q.calls(r"seed_active_query$")[0], VariantIn(r"^\$4$", {"None"}), "seeding skipped only if there is no old header", exits=[ce.bb])
    cx.flow(q, q.origin_local(0), [r"^tuple\{0: <C as function::Configuration>::execute\(\$1, .*id_to_input\(\$2, .*\)\), 1: \$3\}$"], [], "execute_query returns (C::execute(db, id_to_input(id)), active_query)")


@ob("C01.8", ["C01", "C02", "C12", "C20"], also=["C03", "C05"], nec="backdating across a durability decrease, for a provisional old memo, with cycle heads, or without value equality lets dependents keep a result computed from a value that did change", kind="ONLYIF+FLOW")
def c01_8(cx):
    """backdate is called only if old.can_backdate(new) and old.value().is_some_and(|v| C::values_equal(v, new_value)); can_backdate is true only if new.cycle_heads().is_empty() and !old.may_be_provisional() and new.durability >= old.durability; backdate copies old changed_at into the new revisions."""
    b = cx.fn(F + r"backdate::<impl function::IngredientImpl<C>>::backdate_if_appropriate$")
    bd = cx.one_call(b, BD + r"backdate$", "backdate call")
    can = CallIs(BD + r"can_backdate$", True, [r"^\$2\.header$", r"^\$4$"], desc="old_memo.header.can_backdate(revisions)")
    eq = CallIs(r"^std::option::Option::<T>::is_some_and$", True, [r"^function::memo::Memo::<C>::value\(\$2\)$"], desc="old_memo.value().is_some_and(values_equal)")
    cx.only_if(b, bd, can, "backdate only if can_backdate")
    with cx.only("C01", "C02", "C12", "C05"):
        # an evicted memo (value None) is not "equal": recomputing it after an input change must not inherit the old stamp (C05)
        cx.only_if(b, bd, eq, "backdate only if the old value exists and values_equal")
    a = cx.args(bd)
    cx.flow(b, a[0], [r"^\$2\.header$"], [], "backdate reads the OLD memo's header", bd)
    cx.flow(b, a[2], [r"^\$4$"], [], "backdate writes the NEW revisions", bd)
    cb = cx.closure_passed_to(b, r"^std::option::Option::<T>::is_some_and$")
    co = closure_origin(b, cb)
    cx.require(co is not None, "closure origin")
    r = cb.origin_local(0, 0, {1: co})
    cx.flow(cb, r, [r"^<C as function::Configuration>::values_equal\(\$2, \$5\)$", r"^<C as function::Configuration>::values_equal\(\$5, \$2\)$"], [r"^const:"], "the closure is C::values_equal(old_value, new_value)")
    with cx.only("C03"):
        cx.skipped_only_if(b, bd, [CallIs(BD + r"can_backdate$", False), CallIs(r"^std::option::Option::<T>::is_some_and$", False)], "backdate skipped only if !can_backdate or !values_equal (precision)")
    c = cx.fn(BD + r"can_backdate$")
    lits = [CallIs(r"^cycle::CycleHeads::is_empty$", True, [r"^zalsa_local::QueryRevisions::cycle_heads\(\$2\)$"], desc="new.cycle_heads().is_empty()"),
            CallIs(r"MemoHeader::may_be_provisional$", False, [r"^\$1$"], desc="!old.may_be_provisional()"),
            Cmp(r"^\$2\.durability$", ">=", r"^\$1\.revisions\.durability$", desc="new.durability >= old.durability")]
    for l in lits:
        cx.returns_only_if(c, True, l, "can_backdate true only if %r" % l)
    with cx.only("C03"):
        neg = [CallIs(r"^cycle::CycleHeads::is_empty$", False), CallIs(r"MemoHeader::may_be_provisional$", True), Cmp(r"^\$2\.durability$", "<", r"^\$1\.revisions\.durability$")]
        cx.returns_only_if(c, False, neg, "can_backdate false only if cycle heads / provisional / durability decreased (precision)")
    k = cx.fn(BD + r"backdate$")
    st = cx.stores(k, r"^\$3\.changed_at$")
    cx.sites(st, 1, "store to revisions.changed_at in backdate")
    for s, po, vo in st:
        cx.flow(k, vo, [r"^\$1\.revisions\.changed_at$"], [r"^const:", r"current_revision", r"verified_at"], "changed_at := old.changed_at", s)
    other = [x for x in cx.stores(k) if x[1] != "$3.changed_at"]
    cx.check(not other, "backdate writes nothing but changed_at", other[0][0] if other else None, {"stores": [x[1] for x in other]}, key="only-changed_at", body=k)
    with cx.only("C03"):
        cx.must_call(b, BD + r"can_backdate$", "backdate_if_appropriate always consults can_backdate")


@ob("C22.3", ["C22", "C01", "C12", "C15"], "a memo whose value does not come from a completed execution (or a value-less memo outside the poison guard) is a result of an interrupted computation", kind="WRITERS+FLOW")
def c22_3(cx):
    """Every insert_memo call site in the crate (floor 5) stores Some(value of a completed C::execute / cycle_initial / recover_from_cycle / specified value) or, only inside PoisonProvisionalIfPanicking::drop under thread::panicking(), None."""
    sites = cx.facts.call_sites_of(r"^function::IngredientImpl::<C>::insert_memo$")
    cx.sites(sites, 5, "insert_memo call sites")
    for s in sites:
        b = s.body
        m = cx.arg(s, 3)
        mm = re.match(r"^function::memo::Memo::<C>::new\((.*)\)$", m)
        if not mm:
            # memo built elsewhere (e.g. deserialisation) -- not value-carrying construction here
            if re.search(r"deserialize|Deserialize|visit_", b.path):
                cx.check(True, "insert of a deserialised memo", s, {"origin": m[:120]}, key="deser-insert")
                continue
            raise Inconclusive("insert_memo at %s: memo origin %r not a Memo::new" % (s.where(), m[:120]))
        v = mm.group(1)
        if v.startswith("Option::None"):
            ok = re.search(r"PoisonProvisionalIfPanicking.*Drop>::drop$", b.path) is not None
            cx.check(ok, "a value-less memo is inserted only by the poison guard", s, {"fn": b.path}, key="none-insert")
            if ok:
                cx.only_if(b, s, CallIs(r"^std::thread::panicking$", True), "poison memo only while unwinding")
            continue
        ok = re.match(r"^Option::Some\{0: (phi\{)?.*(<C as function::Configuration>::(execute|cycle_initial|recover_from_cycle)\(|execute_query\(|execute_maybe_iterate\(|\$\d+)", v) is not None
        cx.check(ok, "inserted value originates from a completed user computation or the caller-provided (specified) value", s, {"value_origin": v[:200]}, key="value-origin " + b.path)
