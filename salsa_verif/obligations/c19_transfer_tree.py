"""C18/C19 — operations over the tree of transferred locks must visit every level."""
import re

from ..framework import ob, Inconclusive
from ..mirlib import Cmp, CallIs, VariantIn, BoolIs, OnlyIf, Site

DG = r"^runtime::dependency_graph::DependencyGraph::"


@ob("C19.6", ["C19", "C18", "C14"], "locks can be handed over transitively (c->b->a); an operation that rewrites wait-for edges, finds the thread to resume, or releases waiters only one level deep leaves deeper waiters with a stale owner: a missed cycle (deadlock) or a waiter that is never resumed", kind="MUSTCALL (recursion over the transfer tree)")
def c19_6(cx):
    """update_transferred_edges (inner): the lookup of transferred_dependents[query] and the recursion into each dependent happen on every path (independently of whether anybody waits on `query` directly); every direct waiter's edge is re-pointed at the new owner thread. find_blocked_thread: the search recurses into transferred dependents. unblock_recursive: unblocks the waiters of every transferred query and recurses."""
    u = cx.fn(DG + r"update_transferred_edges::update_transferred_edges$")
    gets = cx.some_calls(u, r"HashMap::<K, V, S(, A)?>::get$", 2, "map lookups in update_transferred_edges")
    td = [g for g in gets if cx.arg(g, 0) == "$3"]
    qd = [g for g in gets if cx.arg(g, 0) == "$2"]
    cx.require(len(td) == 1 and len(qd) == 1, "expected one lookup in query_dependents ($2) and one in transferred_dependents ($3)")
    rets = u.return_blocks()
    reach = u.reachable(0, "normal", cut_blocks={td[0].bb})
    cx.check(not any(r in reach for r in rets), "the transferred dependents of `query` are looked up on every path (also when nobody waits on `query` itself)", td[0], key="td-lookup-always")
    rec = [s for s in u.calls(DG + r"update_transferred_edges::update_transferred_edges$")]
    cx.check(len(rec) == 1, "update_transferred_edges recurses into each transferred dependent", td[0], key="recursion")
    for r in rec:
        a = cx.args(r)
        cx.check(a[0] == "$1" and a[1] == "$2" and a[2] == "$3" and a[4] == "$5", "the recursion keeps the graph maps and the new owner thread", r, {"args": a}, key="rec-args")
        cx.skipped_only_if(u, r, [VariantIn(r"HashMap::<K, V, S(, A)?>::get\(\$3, ", {"None"}), VariantIn(r"Iterator>::next\(", {"None"})], "the recursion is skipped only if there are no (more) transferred dependents")
    st = [x for x in cx.stores(u) if x[1].endswith(".blocked_on_id")]
    cx.sites(st, 1, "edge rewrite")
    cx.flow(u, st[0][2], [r"^\$5$"], [r"^const:"], "a direct waiter's edge is re-pointed at the new owner thread", st[0][0])
    f = cx.fn(DG + r"unblock_transfer_target::find_blocked_thread$")
    cb = cx.closure_passed_to(f, r"^std::iter::Iterator::find_map$")
    cx.must_call(cb, DG + r"unblock_transfer_target::find_blocked_thread$", "the search for the thread to resume recurses through every level of transferred dependents")
    o = cx.fn(DG + r"unblock_runtimes_blocked_on_transferred_queries_owned_by::unblock_recursive$")
    rec = cx.some_calls(o, r"unblock_recursive$", 1, "recursion in unblock_recursive")
    ub = cx.some_calls(o, DG + r"unblock_runtimes_blocked_on$", 1, "unblock per transferred query")
    for r in rec:
        cx.flow(o, cx.arg(r, 2), [r"^\$3$"], [], "nested transferred waiters get the same wait result", r)
    d = cx.fn(r"^runtime::dependency_graph::Edges::depends_on$")
    cx.check(bool(d.back_edges()), "depends_on follows the whole chain of wait-for edges (loop)", body=d, key="depends-on-loop")
