"""C18/C19 — operations over the tree of transferred locks must visit every level."""
import re

from ..framework import ob, Inconclusive
from ..mirlib import Cmp, CallIs, VariantIn, BoolIs, OnlyIf, Site

DG = r"^runtime::dependency_graph::DependencyGraph::"
RT = r"^runtime::Runtime::"


@ob("C19.6", ["C19", "C18", "C14"], "locks can be handed over transitively (c->b->a); an operation that rewrites wait-for edges, finds the thread to resume, or releases waiters only one level deep leaves deeper waiters with a stale owner: a missed cycle (deadlock) or a waiter that is never resumed", kind="MUSTCALL (recursion over the transfer tree)")
def c19_6(cx):
    """update_transferred_edges (inner): the lookup of transferred_dependents[query] and the recursion into each dependent happen on every path (independently of whether anybody waits on `query` directly); every direct waiter's edge is re-pointed at the new owner thread. find_blocked_thread: the search recurses into transferred dependents. unblock_recursive: unblocks the waiters of every transferred query and recurses."""
    u = cx.fn(DG + r"update_transferred_edges::update_transferred_edges$")
    gets = cx.some_calls(u, r"HashMap::<K, V, S(, A)?>::get$", 2, "map lookups in update_transferred_edges")
    td = [g for g in gets if cx.arg(g, 0) == "$3"]
    qd = [g for g in gets if cx.arg(g, 0) == "$2"]
    cx.require(len(td) == 1 and len(qd) == 1, "expected one lookup in query_dependents ($2) and one in transferred_dependents ($3)")
    rets = u.return_blocks()
    reach = u.reachable(0, "normal", cut_blocks={td[0].bb})
    cx.check(not any(r in reach for r in rets), "the transferred dependents of `query` are looked up on every path (also when nobody waits on `query` itself)", td[0], key="td-lookup-always")
    rec = [s for s in u.calls(DG + r"update_transferred_edges::update_transferred_edges$")]
    cx.check(len(rec) == 1, "update_transferred_edges recurses into each transferred dependent", td[0], key="recursion")
    for r in rec:
        a = cx.args(r)
        cx.check(a[0] == "$1" and a[1] == "$2" and a[2] == "$3" and a[4] == "$5", "the recursion keeps the graph maps and the new owner thread", r, {"args": a}, key="rec-args")
        cx.skipped_only_if(u, r, [VariantIn(r"HashMap::<K, V, S(, A)?>::get\(\$3, ", {"None"}), VariantIn(r"Iterator>::next\(", {"None"})], "the recursion is skipped only if there are no (more) transferred dependents")
    st = [x for x in cx.stores(u) if x[1].endswith(".blocked_on_id")]
    cx.sites(st, 1, "edge rewrite")
    cx.flow(u, st[0][2], [r"^\$5$"], [r"^const:"], "a direct waiter's edge is re-pointed at the new owner thread", st[0][0])
    # the search for the thread to resume must walk the whole transfer tree: the helper (or closure) nested in
    # unblock_transfer_target that looks into `transferred_dependents` has to be recursive (lie on a cycle of the
    # call graph of the nested bodies); a helper that looks one level down and calls a non-recursive search is not
    ut = cx.fn(DG + r"unblock_transfer_target$")
    nested = [b for b in cx.facts.all_bodies() if b.path.startswith(ut.path + "::")]
    cx.require(len(nested) >= 1, "helpers nested in unblock_transfer_target")
    graph = {}
    for b in nested:
        outs = set()
        for _, callee in cx.facts.callees_of(b):
            if callee and callee.startswith(ut.path + "::"):
                outs.add(callee)
        for _, c in cx.facts.closures_of(b):
            outs.add(c.path)
        graph[b.path] = outs

    def on_cycle(p):
        seen, stack = set(), list(graph.get(p, ()))
        while stack:
            q = stack.pop()
            if q == p:
                return True
            if q in seen:
                continue
            seen.add(q)
            stack += list(graph.get(q, ()))
        return False

    lookers = []
    for b in nested:
        for g in b.calls(r"HashMap::<K, V, S(, A)?>::get$"):
            if cx.arg(g, 0).endswith(".transferred_dependents"):
                lookers.append((b, g))
    cx.sites(lookers, 1, "lookup of transferred_dependents in the search for the thread to resume")
    for b, g in lookers:
        cx.check(on_cycle(b.path), "the search for the thread to resume recurses through every level of transferred dependents", g, {"helper": b.path, "calls": sorted(graph.get(b.path, ()))}, key="search-recursive")
    o = cx.fn(DG + r"unblock_runtimes_blocked_on_transferred_queries_owned_by::unblock_recursive$")
    rec = cx.some_calls(o, r"unblock_recursive$", 1, "recursion in unblock_recursive")
    ub = cx.some_calls(o, DG + r"unblock_runtimes_blocked_on$", 1, "unblock per transferred query")
    for r in rec:
        cx.flow(o, cx.arg(r, 2), [r"^\$3$"], [], "nested transferred waiters get the same wait result", r)
    d = cx.fn(r"^runtime::dependency_graph::Edges::depends_on$")
    cx.check(bool(d.back_edges()), "depends_on follows the whole chain of wait-for edges (loop)", body=d, key="depends-on-loop")


@ob("C18.6", ["C18", "C19", "C14"], "the lock-transfer relation must stay a forest: re-transferring `d -> c` while `c -> .. -> d` exists closes a cycle unless the WHOLE chain from the new owner is walked; with a cycle among transfers the owner lookup and every tree walk above never terminate", kind="LOOPRANK (the chain walk is a loop that follows the transfer chain)")
def c18_6(cx):
    """transfer_lock, re-transfer path: starting from transferred[new_owner] a loop follows entry.get().1 (the next transfer target) for as long as entries exist; it stops early only after it found the link back to `query` and rewired it (insert/remove on that entry)."""
    t = cx.fn(DG + r"transfer_lock$")
    ents = [s for s in t.calls(r"^std::collections::HashMap::<K, V, S(, A)?>::entry$") if cx.arg(s, 0).endswith(".transferred")]
    cx.sites(ents, 2, "lookups in `transferred` in transfer_lock")
    first = [s for s in ents if cx.arg(s, 1) == "$4"]
    cx.sites(first, 1, "the chain walk starts at transferred[new_owner]")
    nxt = [s for s in ents if re.search(r"OccupiedEntry::<'a, K, V, A>::get\(.*\)\.1$", cx.arg(s, 1))]
    cx.check(len(nxt) >= 1, "the walk continues with the next transfer target (entry.get().1)", first[0], {"keys": [cx.arg(s, 1)[:120] for s in ents]}, key="follows-chain")
    for s in nxt:
        in_loop = any(s.bb in t.reachable(succ, "normal") for succ, _ in t.succs(s.bb, "normal"))
        cx.check(in_loop, "following the chain is iterated (a loop), not a single step", s, key="chain-loop")
        cx.flow(t, cx.arg(s, 1), [r"entry\(\$1\.transferred, "], [], "the next segment is looked up from the previous segment's target", s)
    # a loop header: the walk leaves the loop only on a vacant entry or after rewiring the link back to `query`
    if nxt:
        s = nxt[0]
        rew = [x for x in t.calls(r"OccupiedEntry::<'a, K, V, A>::(insert|remove)$") if t.reaches(first[0], x)]
        cx.check(len(rew) >= 2, "the link that would close the cycle is removed or re-pointed", s, key="rewire")


@ob("C18.7", ["C18", "C19", "C14"], "who owns a transferred query is resolved by walking the transfer chain; skipping the wrong link (or stopping early) points a waiter's edge at a thread that does not own the lock: missed cycle detection or a wake-up that never comes; resuming bystanders hands `Completed` to threads whose query did not complete; trusting the recorded owner thread after a re-transfer leaves dependents attached to a stale thread", kind="ONLYIF+LOOP (owner resolution, targeted resume)")
def c18_7(cx):
    """thread_id_of_transferred_query: the chain is followed in a loop over transferred[current_owner]; the resolved thread is updated with each link's thread EXCEPT for the link whose key equals skip_over; the result is the last thread assigned. unblock_transfer_target resumes exactly the one blocked thread found (swap_remove of that index), not the whole dependents list. transfer_lock's re-transfer arm reports the thread as changed unconditionally."""
    t = cx.fn(DG + r"thread_id_of_transferred_query$")
    cx.check(bool(t.back_edges()), "the transfer chain is walked in a loop", body=t, key="owner-loop")
    # the assignment resolved_thread := next_thread is skipped exactly when next_key == skip_over
    asg = []
    for s in t.all_sites():
        if s.is_term() or s.node()["k"] != "assign" or s.node()["p"]["pj"]:
            continue
        try:
            o = t._origin_def(s, "assign", s.node(), 0, None, ())
        except Exception:
            continue
        if re.search(r"HashMap::<K, V, S(, A)?>::get\(\$1\.transferred, .*\)@Some\.0\.0$", o) and t.blocks[s.bb]["term"]["k"] == "goto":
            asg.append(s)
    # keep only assignments inside the loop
    inloop = [s for s in asg if any(s.bb in t.reachable(succ, "normal") for succ, _ in t.succs(s.bb, "normal"))]
    cx.sites(inloop, 1, "resolved_thread := next_thread inside the walk")
    skip = CallIs(r"^std::cmp::PartialEq::eq$", True, [None, r"^\$3$"], desc="Some(next_key) == skip_over")
    noskip = Cmp(r"^Option::Some\{0: .*\}$", "!=", r"^\$3$", desc="Some(next_key) != skip_over")
    for s in inloop:
        cx.only_if(t, s, noskip, "a link's thread is adopted only if the link is not the one to skip")
    u = cx.fn(DG + r"unblock_transfer_target$")
    ur = cx.some_calls(u, DG + r"unblock_runtime$", 1, "resume in unblock_transfer_target")
    for s in ur:
        in_loop = any(s.bb in u.reachable(succ, "normal") for succ, _ in u.succs(s.bb, "normal"))
        cx.check(not in_loop, "a hand-over resumes exactly one thread (the new owner), not every waiter of the query", s, key="single-resume")
        cx.flow(u, cx.arg(s, 1), [r"swap_remove\(.*find_blocked_thread\(.*\)@Some\.0\.1\)$|Vec::<T(, A)?>::swap_remove\("], [], "the thread resumed is the blocked thread that was found", s)
    tl = cx.fn(DG + r"transfer_lock$")
    ut = cx.one_call(tl, DG + r"unblock_transfer_target$", "unblock_transfer_target in transfer_lock")
    ue = cx.one_call(tl, DG + r"update_transferred_edges$", "update_transferred_edges in transfer_lock")
    # on the re-transfer (Occupied, different owner) path both calls are reached unconditionally: the only way to skip them
    # is the Vacant arm with an unchanged thread or the no-op early return
    vac = VariantIn(r"HashMap::<K, V, S(, A)?>::entry\(\$1\.transferred, \$2\)$", {"Vacant"}, desc="first transfer of this query")
    same = Cmp(r"OccupiedEntry::<'a, K, V, A>::get\(", "==", r"^tuple\{0: .*, 1: \$4\}$", desc="same (thread, owner) as before (no-op)")
    for c, what in ((ut, "the new owner is resumed"), (ue, "dependents are re-pointed")):
        cx.skipped_only_if(tl, c, [vac, same], "after a RE-transfer %s regardless of the recorded threads (they may be stale)" % what, exits=tl.return_blocks())


@ob("C18.8", ["C18", "C19", "C14"], "a thread that the owner of a transferred query is (transitively) blocked on IS the effective owner: if it had to wait for the recorded owner instead, both would wait for each other (deadlock), or it would restart the query with a fresh initial value while the cycle is still running", kind="ONLYIF (three-way verdict of block_transferred)")
def c18_8(cx):
    """Runtime::block_transferred: Released only if the transfer chain resolves to no owner thread; OwnedBy(other) only if the owner thread is neither the current thread nor (transitively) blocked on it; the blocking handle names the resolved owner thread, the query asked and the current thread; the dependency-graph lock is taken first and travels inside the handle."""
    b = cx.fn(RT + r"block_transferred$")
    owner = r"DependencyGraph::thread_id_of_transferred_query\(.*, \$2, Option::None\{\}\)"
    for s in cx.sites(b.aggregates(r"BlockTransferredResult$", "Released"), 1, "Released"):
        cx.only_if(b, s, VariantIn(owner + r"$", {"None"}, desc="no owner thread recorded"), "Released only if the transferred query has no owner any more")
    ob = cx.sites(b.aggregates(r"BlockTransferredResult$", "OwnedBy"), 1, "OwnedBy")
    for s in ob:
        cx.only_if(b, s, Cmp(owner + r"@Some\.0$", "!=", r"^\$3$", desc="owner thread != current thread"), "a thread never waits for a transferred query it owns itself")
        cx.only_if(b, s, CallIs(r"DependencyGraph::depends_on$", False, desc="the owner is not blocked on the current thread"), "nor for one whose owner is (transitively) blocked on it")
    dep = cx.one_call(b, r"DependencyGraph::depends_on$", "depends_on in block_transferred")
    a = cx.args(dep)
    cx.flow(b, a[1], [owner + r"@Some\.0$"], [r"^\$3$"], "the wait-for question is asked FROM the owner thread", dep)
    cx.flow(b, a[2], [r"^\$3$"], [], "TO the current thread", dep)
    agg = cx.one(b.aggregates(r"BlockOnTransferredOwner$"), "BlockOnTransferredOwner aggregate")
    o = b._origin_def(agg, "assign", agg.node(), 0, None, ())
    cx.flow(b, o, [r"database_key: \$2, other_id: [\w:]*" + owner + r"@Some\.0, thread_id: \$3\}$"], [r"other_id: \$3"], "the handle blocks the current thread on the resolved owner thread for the query asked", agg)
    cx.flow(b, o, [r"^BlockOnTransferredOwner\{dg: parking_lot::lock_api::Mutex::<R, T>::lock\(\$1\.dependency_graph\)"], [], "and carries the dependency-graph guard taken at entry", agg)
