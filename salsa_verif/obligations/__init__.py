"""Obligation catalogue. Importing this package registers every obligation."""
import importlib
import pkgutil

EXPLANATIONS = {}

for m in sorted(pkgutil.iter_modules(__path__), key=lambda m: m.name):
    mod = importlib.import_module(__name__ + "." + m.name)
    EXPLANATIONS.update(getattr(mod, "EXPLANATIONS", {}))
