"""C01 / C03 — red-green reuse decisions (soundness and precision directions), shared with C02/C04/C05."""
import re

from ..framework import ob, Inconclusive
from ..mirlib import Cmp, CallIs, VariantIn, BoolIs, OnlyIf

EXPLANATIONS = {
    "C01": "Decided (soundness direction, every CFG path): each data-returning read records itself with the matching key/"
    "durability/revision; ActiveQuery folds durability with min and changed_at with max; an input edge is omitted only "
    "for NEVER_CHANGE reads with no cycle heads and no accumulated inputs; a memo is reused only behind "
    "value-present + shallow-verified + non-provisional (hot) or verify_memo (cold); shallow verification compares "
    "last_changed(memo.durability) <= verified_at; deep verification walks the stored edges forward against the OLD "
    "verified_at and gives Unchanged only for Derived, non-provisional memos; leaf ingredients report Changed exactly when "
    "their stamp is newer; execute orders body, completion, backdating, output diffing and memo insertion; backdating needs "
    "no cycle heads, final old memo, non-decreasing durability and values_equal. Not decided: that these mechanisms compose "
    "to from-scratch values for every program and history (algorithmic correctness), user determinism.",
    "C03": "Decided (precision direction): execute is reachable only when there is no usable memo (absent / no value / "
    "verify_memo false); leaf ingredients report Unchanged whenever their stamp is not newer (with C01 this pins '>'); "
    "deep verification yields Unchanged when the edge loop completes, Output edges never yield Changed; backdating keeps "
    "the old changed_at when allowed; set_field bumps only the written field. Not decided: execution counts over histories.",
}

F = r"^function::"
MH = r"function::maybe_changed_after::<impl function::memo::MemoHeader>::"
MEMO_GET = r"get_memo_from_table_for\(\$1, \$2, \$3, \$4\)\?"


def value_defs(body, local=0, seen=None):
    """Expand the defs of `local` through whole-local moves: [(site, kind, node)]."""
    seen = seen or set()
    out = []
    for site, kind, node in body.full_defs(local):
        if kind == "assign" and node["rv"]["k"] == "use":
            o = node["rv"]["o"]
            p = o.get("c") or o.get("m")
            if p is not None and not p["pj"] and p["l"] not in seen and body.full_defs(p["l"]):
                out += value_defs(body, p["l"], seen | {local})
                continue
        out.append((site, kind, node))
    return out


def ret_cases(cx, body, cases, ignore, what, unknown_needs=None):
    """Every def of the return value matches a case regex (then it must be guarded by the case's
    literals) or an ignore regex; anything else is inconclusive - unless unknown_needs=(lits, msg)
    is given: an unrecognised return value outside the region guarded by all lits is a violation
    (the rule allows only the ignore forms there), inside it it stays inconclusive."""
    n = 0
    for site, kind, node in value_defs(body, 0):
        o = body._origin_def(site, kind, node, 0, None, ())
        hit = False
        for rx, lits, label in cases:
            if re.search(rx, o):
                hit = True
                n += 1
                for lit in lits:
                    cx.only_if(body, site, lit, "%s: `%s` only if %r" % (what, label, lit))
                if not lits:
                    cx.check(True, "%s: `%s` (unconditional form accepted)" % (what, label), site, {"origin": o}, key="case " + label)
                break
        if hit:
            continue
        if any(re.search(rx, o) for rx in ignore):
            continue
        if unknown_needs is not None:
            lits, msg = unknown_needs
            eng = OnlyIf(cx.facts, body)
            if not all(eng.guarded(site, lit) for lit in lits):
                cx.check(False, "%s: %s" % (what, msg), site, {"origin": o[:300]}, key="ret-unknown-outside " + what)
                continue
        raise Inconclusive("%s: return-value def %r at %s matches no case" % (what, o[:160], site.where()))
    cx.require(n > 0, "%s: no case matched" % what)


# ---------------------------------------------------------------------------------------------
# C01.2 ActiveQuery folding


@ob("C01.2", ["C01", "C02"], "a memo more durable than an input it read is skipped by the durability shortcut when that input changes; a changed_at older than an input hides the change from dependents", kind="FLOW")
def c01_2(cx):
    """ActiveQuery::{add_read, add_read_simple, seed_iteration}: durability := min(self.durability, d); changed_at := max(self.changed_at, r). ActiveQuery::new/reset_for start from Durability::MAX, Revision::start(), untracked_read=false."""
    AQ = r"^active_query::ActiveQuery::"
    for name, darg, rarg in (("add_read", 3, 4), ("add_read_simple", 3, 4), ("seed_iteration", 2, 3)):
        b = cx.fn(AQ + name + "$")
        st = cx.stores(b, r"^\$1\.durability$")
        cx.sites(st, 1, "%s: store to self.durability" % name)
        for s, po, vo in st:
            cx.flow(b, vo, [r"^<Durability as std::cmp::Ord>::min\(\$1\.durability, \$%d\)$" % darg, r"^<Durability as std::cmp::Ord>::min\(\$%d, \$1\.durability\)$" % darg, r"Durability::(MIN|LOW)$"],
                    [r"::max\(", r"^\$%d$" % darg, r"Durability::(MAX|NEVER_CHANGE|HIGH)"], "%s: durability := min(self.durability, d)" % name, s)
        st = cx.stores(b, r"^\$1\.changed_at$")
        if name == "add_read_simple":
            c = cx.one_call(b, AQ + "add_changed_at$", "add_changed_at call")
            cx.flow(b, cx.arg(c, 1), [r"^\$%d$" % rarg], [r"^const:", r"Revision::start"], "add_read_simple forwards the revision to add_changed_at", c)
            cx.must_call(b, AQ + "add_changed_at$")
            b2 = cx.fn(AQ + "add_changed_at$")
            st = cx.stores(b2, r"^\$1\.changed_at$")
            cx.sites(st, 1, "add_changed_at: store to self.changed_at")
            for s, po, vo in st:
                cx.flow(b2, vo, [r"^<Revision as std::cmp::Ord>::max\(\$1\.changed_at, \$2\)$", r"^<Revision as std::cmp::Ord>::max\(\$2, \$1\.changed_at\)$"], [r"::min\(", r"^\$2$"], "changed_at := max(self.changed_at, r)", s)
        else:
            cx.sites(st, 1, "%s: store to self.changed_at" % name)
            for s, po, vo in st:
                cx.flow(b, vo, [r"^<Revision as std::cmp::Ord>::max\(\$1\.changed_at, \$%d\)$" % rarg, r"^<Revision as std::cmp::Ord>::max\(\$%d, \$1\.changed_at\)$" % rarg], [r"::min\(", r"^\$%d$" % rarg],
                        "%s: changed_at := max(self.changed_at, r)" % name, s)
    # initial state
    b = cx.fn(AQ + "new$")
    agg = cx.one(b.aggregates(r"^active_query::ActiveQuery$"), "ActiveQuery aggregate in new")
    o = b._origin_def(agg, "assign", agg.node(), 0, None, ())
    cx.flow(b, o, [r"durability: const:durability::Durability::MAX[=\d]*, changed_at: revision::Revision::start\(\)"], [r"durability: const:durability::Durability::(MIN|LOW|MEDIUM|HIGH)\b"], "new: durability=MAX, changed_at=start", agg)
    cx.flow(b, o, [r"untracked_read: const:0"], [r"untracked_read: const:1"], "new: untracked_read=false", agg)
    b = cx.fn(AQ + "reset_for$")
    want = {r"^\$1\.durability$": ([r"Durability::MAX"], [r"Durability::(MIN|LOW|MEDIUM|HIGH)\b"]), r"^\$1\.changed_at$": ([r"^revision::Revision::start\(\)$"], [r"^const:"]), r"^\$1\.untracked_read$": ([r"^const:0$"], [r"^const:1$"])}
    for prx, (acc, ref) in want.items():
        st = cx.stores(b, prx)
        cx.sites(st, 1, "reset_for: store %s" % prx)
        for s, po, vo in st:
            cx.flow(b, vo, acc, ref, "reset_for resets %s" % po, s)


@ob("C01.3", ["C01", "C02", "C11"], "a dropped edge to an input that can still change (or that carries cycle heads / accumulated values) is never re-verified", kind="ONLYIF")
def c01_3(cx):
    """An input edge insert is skipped only when durability == NEVER_CHANGE (add_read additionally: cycle_heads.is_empty() and !accumulated_inputs.is_any())."""
    AQ = r"^active_query::ActiveQuery::"
    never = Cmp(r"^\$3$", "==", r"Durability::NEVER_CHANGE", desc="durability == NEVER_CHANGE")
    b = cx.fn(AQ + "add_read$")
    ins = cx.one_call(b, r"^indexmap::IndexSet::<T, S>::insert$", "input_outputs.insert in add_read")
    cx.flow(b, cx.arg(ins, 1), [r"^zalsa_local::QueryEdge::input\(\$2\)$"], [r"QueryEdge::output"], "edge inserted is QueryEdge::input(input)", ins)
    cx.skipped_only_if(b, ins, never, "add_read: edge skipped only if durability == NEVER_CHANGE")
    cx.skipped_only_if(b, ins, CallIs(r"^cycle::CycleHeads::is_empty$", True, [r"^\$5$"]), "add_read: edge skipped only if cycle_heads.is_empty()")
    if "accumulator" in cx.facts.features:
        cx.skipped_only_if(b, ins, CallIs(r"InputAccumulatedValues::is_any$", False), "add_read: edge skipped only if !accumulated_inputs.is_any()")
    b = cx.fn(AQ + "add_read_simple$")
    ins = cx.one_call(b, r"^indexmap::IndexSet::<T, S>::insert$", "input_outputs.insert in add_read_simple")
    cx.flow(b, cx.arg(ins, 1), [r"^zalsa_local::QueryEdge::input\(\$2\)$"], [r"QueryEdge::output"], "edge inserted is QueryEdge::input(input)", ins)
    cx.skipped_only_if(b, ins, never, "add_read_simple: edge skipped only if durability == NEVER_CHANGE")


# ---------------------------------------------------------------------------------------------
# C01.1 every read records itself


@ob("C01.1", ["C01"], "without the edge (or with another field's stamp) a later write never invalidates the reader", kind="MUSTCALL+FLOW")
def c01_1(cx):
    """Data-returning reads report a tracked read with matching key, durability and revision on every path: input field, tracked field, function fetch, untracked reads; the ZalsaLocal reporters forward their arguments positionally to ActiveQuery."""
    # input field
    b = cx.fn(r"^input::IngredientImpl::<C>::field$")
    cx.must_call(b, r"^zalsa_local::ZalsaLocal::report_tracked_read_simple$")
    c = cx.one_call(b, r"^zalsa_local::ZalsaLocal::report_tracked_read_simple$", "report call in input field")
    a = cx.args(c)
    val = r"input::IngredientImpl::<C>::data\(\$2, <Struct as id::AsId>::as_id\(\$4\)\)"
    cx.flow(b, a[1], [r"^key::DatabaseKeyIndex::new\(zalsa::IngredientIndex::successor\(\$1\.ingredient_index, \$5\), <Struct as id::AsId>::as_id\(\$4\)\)$"], [r"successor\(\$1\.ingredient_index, const:", r"DatabaseKeyIndex::new\(\$1\.ingredient_index,"], "key = (field ingredient of field_index, id)", c)
    cx.flow(b, a[2], [r"^" + val + r"\.durabilities\[\$5\]$"], [r"^const:", r"Durability::", r"durabilities\[const:"], "durability = durabilities[field_index]", c)
    cx.flow(b, a[3], [r"^" + val + r"\.revisions\[\$5\]$"], [r"^const:", r"Revision::start", r"revisions\[const:", r"current_revision"], "revision = revisions[field_index]", c)
    cx.flow(b, b.origin_local(0), [r"^" + val + r"\.fields$"], [], "returns the fields of the same value", None)
    # tracked field
    b = cx.fn(r"^tracked_struct::IngredientImpl::<C>::tracked_field$")
    cx.must_call(b, r"^zalsa_local::ZalsaLocal::report_tracked_read_simple$")
    c = cx.one_call(b, r"^zalsa_local::ZalsaLocal::report_tracked_read_simple$", "report call in tracked_field")
    a = cx.args(c)
    cx.flow(b, a[1], [r"^key::DatabaseKeyIndex::new\(zalsa::IngredientIndex::successor\(\$1\.ingredient_index, \$5\), <Struct<'_> as id::AsId>::as_id\(\$4\)\)$", r"^key::DatabaseKeyIndex::new\(zalsa::IngredientIndex::successor\(\$1\.ingredient_index, \$5\), .*as_id\(\$4\)\)$"],
            [r"successor\(\$1\.ingredient_index, const:", r"DatabaseKeyIndex::new\(\$1\.ingredient_index,"], "key = (tracked-field ingredient of relative_tracked_index, id)", c)
    cx.flow(b, a[2], [r"\.durability$"], [r"^const:", r"Durability::"], "durability = the struct's durability", c)
    cx.flow(b, a[3], [r"\.revisions\[\$5\]\)?$", r"load\(.*\.revisions\[\$5\]\)$"], [r"^const:", r"Revision::start", r"revisions\[const:"], "revision = revisions[relative_tracked_index]", c)
    # function fetch
    b = cx.fn(F + r"fetch::<impl function::IngredientImpl<C>>::fetch$")
    cx.must_call(b, r"^zalsa_local::ZalsaLocal::report_tracked_read$")
    c = cx.one_call(b, r"^zalsa_local::ZalsaLocal::report_tracked_read$", "report call in fetch")
    a = cx.args(c)
    memo = r"function::fetch::<impl function::IngredientImpl<C>>::refresh_memo\(\$1, \$2, \$3, \$4, \$5\)"
    cx.flow(b, a[1], [r"^function::IngredientImpl::<C>::database_key_index\(\$1, \$5\)$"], [], "key = this function's key for id", c)
    cx.flow(b, a[2], [r"^" + memo + r"\.header\.revisions\.durability$"], [r"^const:", r"Durability::"], "durability = returned memo's durability", c)
    cx.flow(b, a[3], [r"^" + memo + r"\.header\.revisions\.changed_at$"], [r"^const:", r"verified_at", r"current_revision"], "changed_at = returned memo's changed_at", c)
    cx.flow(b, a[4], [r"^function::memo::MemoHeader::cycle_heads\(" + memo + r"\.header\)$"], [], "cycle heads = returned memo's", c)
    # reporters forward positionally
    ZL = r"^zalsa_local::ZalsaLocal::"
    for rep, target, n in (("report_tracked_read", "add_read", 7 if "accumulator" in cx.facts.features else 5), ("report_tracked_read_simple", "add_read_simple", 4), ("report_tracked_read_revision", "add_changed_at", 2), ("report_untracked_read", "add_untracked_read", 2)):
        b = cx.fn(ZL + rep + "$")
        cb = cx.closure_passed_to(b, ZL + r"with_query_stack_unchecked_mut$")
        c = cx.one_call(cb, r"^active_query::ActiveQuery::" + target + "$", "%s call inside %s" % (target, rep))
        # captured values: closure env field i is parent's $(i+2)
        cl = None
        for s in b.aggregates(r".*"):
            rv = s.node()["rv"]
            if rv.get("ak") == "closure" and rv.get("def") == cb.path:
                cl = b._origin_def(s, "assign", s.node(), 0, None, ())
        cx.require(cl is not None, "closure aggregate for %s not found" % rep)
        args = [cb.origin_op(x, 0, {1: cl}) for x in c.node()["args"]]
        want = ["$%d" % i for i in range(2, n + 1)]
        cx.check(args[1:] == want, "%s forwards its arguments to %s in order" % (rep, target), c, {"args": args[1:], "expected": want}, key="forward " + rep)
        cx.flow(cb, args[0], [r"last_mut\(.*\$2.*\)@Some\.0$", r"last_mut"], [r"first_mut|\[const:0\]"], "%s targets the top of the query stack" % rep, c)
    # untracked read entry points
    b = cx.fn(r"^database::Database::report_untracked_read$")
    cx.must_call(b, ZL + r"report_untracked_read$")
    c = cx.one_call(b, ZL + r"report_untracked_read$", "untracked read report")
    cx.flow(b, cx.arg(c, 1), [r"^zalsa::Zalsa::current_revision\("], [r"^const:", r"Revision::start"], "untracked read is stamped with the current revision", c)


# ---------------------------------------------------------------------------------------------
# C01.4 reuse decisions


def lits_fetch_hot():
    memo = r"get_memo_from_table_for\(\$1, \$2, \$3, \$4\)\?"
    return memo, [
        VariantIn(memo + r"\.value$", {"Some"}, desc="memo.value is Some"),
        CallIs(r"ShallowUpdate::yes$", True, [r"shallow_verify_memo\(.*" + memo + r"\.header, \$2, "], desc="shallow_verify_memo(memo).yes()"),
        CallIs(r"MemoHeader::may_be_provisional$", False, [memo + r"\.header$"], desc="!memo.may_be_provisional()"),
    ]


@ob("C01.4a", ["C01", "C05", "C12", "C23"], "returning a memo that is not verified for the current revision (or value-less, or provisional) hands out a stale/invalid result", kind="ONLYIF")
def c01_4a(cx):
    """fetch_hot returns Some(memo) only if memo.value.is_some() and shallow_verify_memo(memo).yes() and !memo.may_be_provisional(); the memo returned is the one that was checked."""
    b = cx.fn(F + r"fetch::<impl function::IngredientImpl<C>>::fetch_hot$")
    memo, lits = lits_fetch_hot()
    ret_cases(cx, b, [(r"^Option::Some\{0: function::IngredientImpl::<C>::extend_memo_lifetime\(\$1, .*" + memo + r"\)\}$", lits, "Some(memo)")],
              [r"^Option::None\{\}$", r"from_residual"], "fetch_hot")


@ob("C01.4b", ["C01", "C05", "C23"], also=["C03"], nec="an old memo returned without verify_memo is a stale result; executing although verify_memo succeeded wastes a re-execution (C03)", kind="ONLYIF")
def c01_4b(cx):
    """fetch_cold returns the old memo only if old_memo.value.is_some() and old_memo.verify_memo(..); execute is reached only when there is no old memo, it has no value, or verify_memo is false (precision)."""
    b = cx.fn(F + r"fetch::<impl function::IngredientImpl<C>>::fetch_cold$")
    memo = r"get_memo_from_table_for\(\$1, \$2, \$5, \$6\)"
    lits = [VariantIn(memo + r"@Some\.0\.value$|" + memo + r"\?\.value$", {"Some"}, desc="old_memo.value.is_some()"),
            CallIs(MH + r"verify_memo$", True, [memo + r"(@Some\.0|\?)\.header$"], desc="old_memo.verify_memo(..)")]
    ret_cases(cx, b, [(r"^Option::Some\{0: function::IngredientImpl::<C>::extend_memo_lifetime\(\$1, .*" + memo + r"(@Some\.0|\?)\)\}$", lits, "Some(old_memo)"),
                      (r"^function::execute::<impl function::IngredientImpl<C>>::execute\(\$1, \$4, .*" + memo + r"\)$", [], "execute(db, claim_guard, opt_old_memo)"),
                      (r"^Option::Some\{0: function::fetch::<impl function::IngredientImpl<C>>::fetch_cold_cycle\(", [], "Some(fetch_cold_cycle(..))")],
              [r"^Option::None\{\}$"], "fetch_cold")
    # precision: execute only if (no memo) or (no value) or (!verify)
    ex = cx.one_call(b, F + r"execute::<impl function::IngredientImpl<C>>::execute$", "execute call in fetch_cold")
    with cx.only("C03"):
      cx.only_if_any(b, ex, [VariantIn(memo + r"$", {"None"}, desc="no old memo"), VariantIn(memo + r"(@Some\.0|\?)\.value$", {"None"}, desc="old memo has no value"),
                           CallIs(MH + r"verify_memo$", False, [memo + r"(@Some\.0|\?)\.header$"], desc="!verify_memo")], "execute reached only if no memo / no value / !verify_memo")


@ob("C01.4c", ["C01", "C02", "C04"], also=["C03"], nec="Verified for a memo not verified in the current revision, or HigherDurability although an input of the memo's durability changed after verified_at, reuses a stale memo", kind="ONLYIF+FLOW")
def c01_4c(cx):
    """shallow_verify_memo returns Verified only if verified_at.load() == current_revision; shallow_verify_memo_cold returns HigherDurability only if last_changed_revision(self.revisions.durability) <= verified_at; ShallowUpdate::yes() is true only for Verified|HigherDurability."""
    b = cx.fn(MH + r"shallow_verify_memo$")
    va = r"^revision::AtomicRevision::load\(\$1\.verified_at\)$"
    eq = Cmp(va, "==", r"^zalsa::Zalsa::current_revision\(\$2\)$", desc="verified_at == current_revision")
    ret_cases(cx, b, [(r"^ShallowUpdate::Verified\{\}$", [eq], "Verified"),
                      (r"^" + MH + r"shallow_verify_memo_cold\(\$1, \$2, \$3, revision::AtomicRevision::load\(\$1\.verified_at\)\)$", [], "delegates to shallow_verify_memo_cold(self, zalsa, key, verified_at)")],
              [], "shallow_verify_memo")
    c = cx.fn(MH + r"shallow_verify_memo_cold$")
    le = Cmp(r"^zalsa::Zalsa::last_changed_revision\(\$2, \$1\.revisions\.durability\)$", "<=", r"^\$4$", desc="last_changed_revision(self.revisions.durability) <= verified_at")
    ret_cases(cx, c, [(r"^ShallowUpdate::HigherDurability\{\}$", [le], "HigherDurability"), (r"^ShallowUpdate::Verified\{\}$", [le], "Verified")], [r"^ShallowUpdate::No\{\}$"], "shallow_verify_memo_cold")
    # precision (C03): No only if last_changed > verified_at
    gt = Cmp(r"^zalsa::Zalsa::last_changed_revision\(\$2, \$1\.revisions\.durability\)$", ">", r"^\$4$", desc="last_changed > verified_at")
    with cx.only("C03"):
        for s in cx.ret_sites(c, "No"):
            cx.only_if(c, s, gt, "shallow_verify_memo_cold: No only if last_changed > verified_at (precision)")
    y = cx.fn(r"^function::maybe_changed_after::ShallowUpdate::yes$")
    cx.returns_only_if(y, True, VariantIn(r"^\$1$", {"Verified", "HigherDurability"}, desc="self is Verified|HigherDurability"))
    cx.returns_only_if(y, False, VariantIn(r"^\$1$", {"No"}, desc="self is No"))


@ob("C01.4d", ["C01", "C12", "C20", "C17"], "verify_memo true without shallow+provisional validation or an Unchanged deep verification reuses a stale or abandoned-provisional memo", kind="ONLYIF")
def c01_4d(cx):
    """verify_memo returns true only via (shallow.yes() and validate_may_be_provisional(..)) or deep_verify_memo(..).is_unchanged()."""
    b = cx.fn(MH + r"verify_memo$")
    sh = r"shallow_verify_memo\(\$1, function::sync::ClaimGuard::<'me>::zalsa\(\$3\), function::sync::ClaimGuard::<'me>::database_key_index\(\$3\)\)"
    lits = [CallIs(r"ShallowUpdate::yes$", True, [sh], desc="shallow_verify_memo(self).yes()"), CallIs(MH + r"validate_may_be_provisional$", True, [r"^\$1$"], desc="self.validate_may_be_provisional(..)")]
    ret_cases(cx, b, [(r"^const:1$", lits, "true"), (r"^function::maybe_changed_after::VerifyResult::is_unchanged\(" + MH + r"deep_verify_memo\(\$1, \$2, \$3, \$4\)\)$", [], "deep_verify_memo(..).is_unchanged()")], [r"^const:0$"], "verify_memo")
    iu = cx.fn(r"^function::maybe_changed_after::VerifyResult::is_unchanged$")
    cx.returns_only_if(iu, True, VariantIn(r"^\$1$", {"Unchanged"}, desc="self is Unchanged"))
    cx.returns_only_if(iu, False, VariantIn(r"^\$1$", {"Changed"}, desc="self is Changed"))
    # validate_may_be_provisional: true only if !may_be_provisional or cycle_heads empty or (count equal and (validate_provisional or validate_same_iteration))
    v = cx.fn(MH + r"validate_may_be_provisional$")
    np_ = CallIs(r"MemoHeader::may_be_provisional$", False, [r"^\$1$"], desc="!self.may_be_provisional()")
    emp = CallIs(r"^cycle::CycleHeads::is_empty$", True, [r"MemoHeader::cycle_heads\(\$1\)$"], desc="cycle_heads.is_empty()")
    same = Cmp(r"IterationStamp::cancellation_count\(zalsa_local::QueryRevisions::iteration\(\$1\.revisions\)\)$", "==", r"Runtime::cancellation_count\(zalsa::Zalsa::runtime\(\$2\)\)$", desc="memo cancellation_count == runtime cancellation_count")
    n = 0
    for site, kind, node in value_defs(v, 0):
        o = v._origin_def(site, kind, node, 0, None, ())
        if o == "const:0":
            continue
        n += 1
        if o == "const:1":
            cx.only_if_any(v, site, [np_, emp, same], "validate_may_be_provisional: `true` only if final / no heads / same cancellation epoch")
            # the const-true that follows validate_provisional || validate_same_iteration must be behind the epoch check unless final/empty
        elif re.search(r"validate_same_iteration\(|validate_provisional\(", o):
            cx.only_if(v, site, same, "validate_may_be_provisional: provisional validation only in the same cancellation epoch")
        else:
            raise Inconclusive("validate_may_be_provisional: unexpected return def %r" % o[:120])
    cx.require(n >= 2, "validate_may_be_provisional: expected >= 2 truthy return defs, found %d" % n)
    for callee in ("validate_provisional", "validate_same_iteration"):
        for s in cx.some_calls(v, r"^function::maybe_changed_after::%s$" % callee, 1, callee + " call"):
            cx.only_if(v, s, same, "%s is consulted only in the same cancellation epoch" % callee)


@ob("C01.4e", ["C01", "C04", "C10"], also=["C03"], nec="Unchanged for an Assigned / DerivedUntracked / provisional memo skips a required re-execution", kind="ONLYIF+TABLE")
def c01_4e(cx):
    """deep_verify_memo returns non-Changed only in the Derived arm, with !may_be_provisional and !(strategy==Panic and was_cycle_participant), as the result of deep_verify_edges(db, zalsa, &self.revisions, verified_at.load(), edges, key); mark_as_verified only if that result is_unchanged."""
    b = cx.fn(MH + r"deep_verify_memo$")
    origin = r"MemoHeader::origin\(\$1\)$"
    derived = VariantIn(origin, {"Derived"}, desc="origin is Derived")
    nonprov = CallIs(r"MemoHeader::may_be_provisional$", False, [r"^\$1$"], desc="!self.may_be_provisional()")
    edges_call = r"^function::maybe_changed_after::deep_verify_edges\(\$2, function::sync::ClaimGuard::<'me>::zalsa\(\$3\), \$1\.revisions, [^,]*(\([^()]*\))?, function::memo::MemoHeader::origin\(\$1\)@Derived\.0, function::sync::ClaimGuard::<'me>::database_key_index\(\$3\)\)$"
    ret_cases(cx, b, [(edges_call, [derived, nonprov], "deep_verify_edges(db, zalsa, &self.revisions, verified_at, edges, key)")], [r"^function::maybe_changed_after::VerifyResult::changed\(\)$", r"^VerifyResult::Changed\{\}$", r"^function::maybe_changed_after::VerifyResult::changed_if\(const:1\)$"], "deep_verify_memo",
              unknown_needs=([derived], "a result other than Changed is produced outside the Derived arm (Assigned / DerivedUntracked memos have no edges that could prove them unchanged)"))
    de = cx.one_call(b, r"^function::maybe_changed_after::deep_verify_edges$", "deep_verify_edges call")
    # the revision the edges are compared with is the memo's own verified_at: anything newer (current revision)
    # accepts stale memos (C01); the memo's changed_at (never newer than verified_at) is sound but re-executes a
    # backdated query after every later unrelated write (C03)
    since = cx.arg(de, 3)
    if re.search(r"^\$1\.revisions\.changed_at$", since):
        with cx.only("C03"):
            cx.check(False, "edges are verified against the memo's verified_at (not its older changed_at: precision)", de, {"since": since}, key="since-verified-at")
    else:
        cx.flow(b, since, [r"^revision::AtomicRevision::load\(\$1\.verified_at\)$"], [r"current_revision", r"Revision::(max|start)"], "edges are verified against the memo's own verified_at", de)
    # not reached for Panic-strategy cycle participants
    eng = OnlyIf(cx.facts, b)
    panic = Cmp(r"^\$4$", "!=", r"CycleRecoveryStrategy::Panic", desc="strategy != Panic")
    notpart = CallIs(r"MemoHeader::was_cycle_participant$", False, [r"^\$1$"], desc="!was_cycle_participant()")
    cx.only_if_any(b, de, [panic, notpart], "deep_verify_edges reached only if !(strategy == Panic && was_cycle_participant)")
    for s in cx.some_calls(b, r"MemoHeader::mark_as_verified$", 1, "mark_as_verified in deep_verify_memo"):
        cx.only_if(b, s, CallIs(r"VerifyResult::is_unchanged$", True, [r"deep_verify_edges\("], desc="deep_verify_edges(..).is_unchanged()"), "mark_as_verified only after an Unchanged deep verification")
    # precision (C03.6): the Changed exits are exactly the listed causes
    ch = b.calls(r"^function::maybe_changed_after::VerifyResult::changed$")
    cx.sites(ch, 4, "VerifyResult::changed() sites in deep_verify_memo")
    prov = CallIs(r"MemoHeader::may_be_provisional$", True, [r"^\$1$"], desc="may_be_provisional()")
    part = CallIs(r"MemoHeader::was_cycle_participant$", True, [r"^\$1$"], desc="was_cycle_participant()")
    with cx.only("C03"):
      for s in ch:
        cx.only_if_any(b, s, [prov, part, VariantIn(origin, {"Assigned"}), VariantIn(origin, {"DerivedUntracked"})], "Changed without walking edges only for provisional / Panic cycle participant / Assigned / DerivedUntracked (precision)")


@ob("C01.5", ["C01", "C06", "C11", "C10"], also=["C03"], nec="a later edge may exist only because an earlier one had its old value: verifying out of order, or against a newer revision than the memo's own verified_at, accepts stale memos", kind="ONLYIF+FLOW")
def c01_5(cx):
    """deep_verify_edges iterates the stored edges forward, returns Changed as soon as an Input edge's maybe_changed_after(db, zalsa, old_verified_at) is Changed, never returns Changed for Output edges, marks Output edges validated, returns Unchanged when the loop completes."""
    b = cx.fn(r"^function::maybe_changed_after::deep_verify_edges$")
    it = cx.one_call(b, r"^std::iter::IntoIterator::into_iter$", "edge iterator construction")
    cx.flow(b, cx.arg(it, 0), [r"^\$5$"], [r"rev\("], "iterates the stored edges (no .rev())", it)
    cx.check(not b.calls(r"^std::iter::Iterator::rev$|DoubleEndedIterator::next_back$"), "no reverse iteration in deep_verify_edges", it, key="no-rev")
    nx = cx.one_call(b, r"^std::iter::Iterator::next$", "iterator next")
    edge = r"<QueryEdgeIter as std::iter::Iterator>::next\(.*\)@Some\.0"
    mca = cx.one_call(b, r"^key::DatabaseKeyIndex::maybe_changed_after$", "input maybe_changed_after call")
    a = cx.args(mca)
    cx.flow(b, a[0], [r"^zalsa_local::QueryEdge::key\(" + edge + r"\)$"], [], "verifies the edge's own key", mca)
    cx.flow(b, a[3], [r"^\$4$"], [r"current_revision", r"^const:"], "against the OLD memo's verified_at", mca)
    kind = r"^zalsa_local::QueryEdge::kind\(" + edge + r"\)$"
    cx.only_if(b, mca, VariantIn(kind, {"Input"}), "maybe_changed_after is asked for Input edges")
    res = r"^key::DatabaseKeyIndex::maybe_changed_after\("
    changed_in = VariantIn(res, {"Changed"}, desc="input_result is Changed")
    ch = cx.some_calls(b, r"^function::maybe_changed_after::VerifyResult::changed$", 1, "changed() in deep_verify_edges")
    with cx.only("C03"):
        for s in ch:
            cx.only_if(b, s, changed_in, "Changed only because an input edge reported Changed (precision)")
    # soundness: after an input reports Changed the function returns Changed without looking further:
    # the loop back-edge / Unchanged exit is reached from the Input arm only via the Unchanged variant.
    eng = OnlyIf(cx.facts, b)
    unch = VariantIn(res, {"Unchanged"}, desc="input_result is Unchanged")
    ok_edges = eng.establishing_edges(unch)
    # from the block after mca, reaching `next` again or the final result must cross an Unchanged edge
    after = [s for s, _ in b.succs(mca.bb)]
    fin = cx.some_calls(b, r"VerifyResult::unchanged_with_accumulated$", 1, "final unchanged_with_accumulated")
    for a0 in after:
        reach = b.reachable(a0, "normal", cut_edges=ok_edges, cut_blocks={c.bb for c in ch})
        cx.check(nx.bb not in reach and all(f.bb not in reach for f in fin), "after an input edge reports Changed no further edge is examined and Unchanged is not returned", mca,
                 {"reach_without_unchanged_edge": sorted(reach)[:20]}, key="changed-is-final")
    mv = cx.one_call(b, r"^key::DatabaseKeyIndex::mark_validated_output$", "mark_validated_output call")
    cx.only_if(b, mv, VariantIn(kind, {"Output"}), "outputs are marked validated in the Output arm")
    cx.flow(b, cx.arg(mv, 0), [r"^zalsa_local::QueryEdge::key\(" + edge + r"\)$"], [], "marks the edge's own key", mv)
    ret_cases(cx, b, [(r"^function::maybe_changed_after::VerifyResult::unchanged_with_accumulated\(", [VariantIn(r"Iterator>::next\(", {"None"}, desc="iterator exhausted")], "unchanged_with_accumulated(inputs)")],
              [r"^function::maybe_changed_after::VerifyResult::changed\(\)$"], "deep_verify_edges")


@ob("C01.6", ["C01", "C07"], also=["C03", "C12", "C15", "C11", "C13"], nec="'>=' re-executes readers of unchanged fields (C03); '<'/'<=' or a missing comparison hides a write from its readers (C01)", kind="ONLYIF both directions")
def c01_6(cx):
    """Leaf maybe_changed_after: input field and tracked field report Changed iff stored revision > revision; interned iff stored generation > requested generation; function (hot / after verify / after re-execution) Changed if changed_at > revision; changed_if(b) is Changed iff b."""
    ci = cx.fn(r"^function::maybe_changed_after::VerifyResult::changed_if$")
    with cx.only("C03"):
        cx.returns_only_if(ci, {"Changed"}, BoolIs(r"^\$1$", True))
    cx.returns_only_if(ci, {"Unchanged"}, BoolIs(r"^\$1$", False))
    for path, stored in ((r"^<input::input_field::FieldIngredientImpl<C> as ingredient::Ingredient>::maybe_changed_after$", r"^input::IngredientImpl::<C>::data\(\$2, \$4\)\.revisions\[\$1\.field_index\]$"),
                         (r"^<tracked_struct::tracked_field::FieldIngredientImpl<C> as ingredient::Ingredient>::maybe_changed_after$", r"^revision::AtomicRevision::load\(tracked_struct::IngredientImpl::<C>::data_raw\(zalsa::Zalsa::table\(\$2\), \$4\)\.revisions\[\$1\.field_index\]\)$")):
        b = cx.fn(path)
        # the literals name the slot of the requested id ($4) and this ingredient's own field index: a
        # comparison against any other stamp does not establish them
        gt = Cmp(stored, ">", r"^\$5$", desc="stored revision of (id, field) > revision")
        le = Cmp(stored, "<=", r"^\$5$", desc="stored revision of (id, field) <= revision")
        with cx.only("C03"):
            cx.returns_only_if(b, {"Changed"}, gt, "Changed only if the field's stored revision > revision (precision)")
        cx.returns_only_if(b, {"Unchanged"}, le, "Unchanged only if the field's stored revision <= revision (soundness)")
    b = cx.fn(r"^<interned::IngredientImpl<C> as ingredient::Ingredient>::maybe_changed_after$")
    gen_gt = Cmp(r"id::Id::generation\(.*metadata.*\.id\)$", ">", r"^id::Id::generation\(\$4\)$", desc="slot generation > requested generation")
    gen_le = Cmp(r"id::Id::generation\(.*metadata.*\.id\)$", "<=", r"^id::Id::generation\(\$4\)$", desc="slot generation <= requested generation")
    with cx.only("C03"):
        cx.returns_only_if(b, {"Changed"}, gen_gt, "interned: Changed only if the slot was reused (generation increased)")
    cx.returns_only_if(b, {"Unchanged"}, gen_le, "interned: Unchanged only if the generation did not increase")
    # function ingredient: hot / cold verified / after re-execution
    hot = cx.fn(MH + r"maybe_changed_after_hot$")
    gt = Cmp(r"^\$1\.revisions\.changed_at$", ">", r"^\$4$", desc="changed_at > revision")
    le = Cmp(r"^\$1\.revisions\.changed_at$", "<=", r"^\$4$", desc="changed_at <= revision")
    for s in cx.some_calls(hot, r"VerifyResult::unchanged_for_memo$", 1, "unchanged_for_memo in hot path"):
        cx.only_if(hot, s, le, "hot: Unchanged only if changed_at <= revision")
        cx.only_if(hot, s, CallIs(r"ShallowUpdate::yes$", True), "hot: a verdict only for shallow-verified memos")
        with cx.only("C01", "C07", "C12", "C15", "C13"):
            # a provisional (or poisoned) memo of an unfinished / failed cycle must never be answered from the hot path (C12, C15)
            cx.only_if(hot, s, CallIs(r"MemoHeader::may_be_provisional$", False, [r"^\$1$"]), "hot: a verdict only for final memos")
    with cx.only("C03"):
        for s in cx.some_calls(hot, r"VerifyResult::changed$", 1, "changed in hot path"):
            cx.only_if(hot, s, gt, "hot: Changed only if changed_at > revision (precision)")
    inner = cx.fn(F + r"maybe_changed_after::<impl function::IngredientImpl<C>>::maybe_changed_after_cold::inner$")
    oh = r"ErasedMemo::<'a>::header\(.*\)\.revisions\.changed_at$|header\(.*\)\.revisions\.changed_at$"
    for s in cx.some_calls(inner, r"VerifyResult::unchanged_for_memo$", 1, "unchanged_for_memo in cold inner"):
        cx.only_if(inner, s, Cmp(oh, "<=", r"^\$7$", desc="old changed_at <= revision"), "cold: Unchanged only if changed_at <= revision")
        with cx.only("C01", "C07", "C11"):
            # verify_memo refreshes the memo's accumulated-inputs flag: the verdict (which carries that flag) is built after it (C11)
            cx.only_if(inner, s, CallIs(MH + r"verify_memo$", True), "cold: Unchanged only after verify_memo")
    cold = cx.fn(F + r"maybe_changed_after::<impl function::IngredientImpl<C>>::maybe_changed_after_cold$")
    newc = r"execute\(.*\)\?\.header\.revisions\.changed_at$"
    for s in cx.some_calls(cold, r"VerifyResult::unchanged_for_memo$", 1, "unchanged_for_memo after re-execution"):
        cx.only_if(cold, s, Cmp(newc, "<=", r"^\$6$", desc="new changed_at <= revision"), "after re-execution: Unchanged only if changed_at <= revision")
        with cx.only("C01", "C12"):
            cx.only_if(cold, s, CallIs(r"MemoHeader::may_be_provisional$", False, [r"execute\(.*\)\?\.header$"]), "after re-execution: Unchanged only if the new memo is final (a provisional result always reads as Changed)")


@ob("C03.1", ["C03", "C05", "C17"], "a second way into execute (or one not conditioned on failed verification) re-runs bodies whose memo is still valid", kind="WRITERS+ONLYIF")
def c03_1(cx):
    """Every call site of IngredientImpl::execute in the crate is fetch_cold or maybe_changed_after_cold (floor 2), each conditioned on a failed verification; maybe_changed_after_cold executes only for a final old memo with a value."""
    sites = cx.facts.call_sites_of(F + r"execute::<impl function::IngredientImpl<C>>::execute$")
    cx.sites(sites, 2, "call sites of execute")
    allowed = (F + r"fetch::<impl function::IngredientImpl<C>>::fetch_cold$", F + r"maybe_changed_after::<impl function::IngredientImpl<C>>::maybe_changed_after_cold$")
    for s in sites:
        ok = any(re.search(a, s.body.path) for a in allowed)
        if not ok:
            # a new caller is not a violation by itself; it must carry a failed-verification guard
            g = OnlyIf(cx.facts, s.body).guarded(s, CallIs(MH + r"verify_memo$", False))
            cx.check(g, "execute call outside fetch_cold/maybe_changed_after_cold is guarded by !verify_memo", s, key="new-execute-caller " + s.body.path)
        else:
            cx.check(True, "execute call site in a verification-failed continuation", s, key="execute-caller")
    cold = cx.fn(allowed[1])
    ex = cx.one_call(cold, F + r"execute::<impl function::IngredientImpl<C>>::execute$", "execute in maybe_changed_after_cold")
    cx.only_if(cold, ex, VariantIn(r"inner\(", {"Reexecute"}, desc="inner(..) is Reexecute"), "re-execution only on ColdResult::Reexecute")
    cx.only_if(cold, ex, VariantIn(r"downcast\(.*\)\.value$", {"Some"}, desc="old_memo.value is Some"), "a value-less (evicted) old memo reports Changed instead of executing")
    inner = cx.fn(allowed[1][:-1] + r"::inner$")
    re_sites = inner.aggregates(r"ColdResult$", "Reexecute")
    cx.sites(re_sites, 1, "Reexecute construction")
    for s in re_sites:
        cx.only_if(inner, s, CallIs(MH + r"verify_memo$", False), "Reexecute only if verify_memo failed")
        cx.only_if(inner, s, CallIs(r"MemoHeader::may_be_provisional$", False), "Reexecute only for a non-provisional old memo")
