"""C08 — interning is canonical; C09 — reclamation only when stale and reclaimable (plus C07 interned parts)."""
import re

from ..framework import ob, Inconclusive
from ..mirlib import Cmp, CallIs, VariantIn, BoolIs, OnlyIf, Site

EXPLANATIONS = {
    "C08": "Decided: lookup and insertion happen in ONE critical section of the key's shard (a single lock acquisition in "
    "intern_id whose guard is live at every key-map/LRU mutation and at the cold insert); the shard is a function of the key's "
    "hash only and the stored value remembers it; equality of a stored value with a key is HashEqLike::eq on the stored fields; "
    "every access to the unsynchronised cells of a value (metadata, durability, fields, memos) is under the shard lock, under "
    "&mut, inside an `unsafe fn` whose contract requires the lock, or in the documented validated-read exceptions; field reads "
    "return the fields of the slot named by the id; the fast path refreshes last_interned_at and LRU position. Not decided: "
    "handle equality for concrete value multisets and schedules.",
    "C09": "Decided (direction reclaim => allowed): is_reusable requires REVISIONS != IMMORTAL and durability == LOW; a value "
    "enters the LRU only if reusable and leaves it when its durability rises, stored durability is max(old, stamp); the reuse "
    "path is reached only if the revision queue is primed and find_reusable_slot returned a slot, which requires is_stale(last_"
    "interned_at); is_stale is `r < oldest` with oldest != start; scanning starts at the LRU back; record() shifts towards the "
    "tail and both interning and validation refresh last_interned_at and record the revision; IMMORTAL == usize::MAX, default 3. "
    "Not decided: the revision-timeline arithmetic for concrete gaps.",
}

IN = r"^interned::IngredientImpl::<C>::"
LOCK = r"^parking_lot::lock_api::Mutex::<R, T>::lock$"


def guard_live_at(body, lock_site, access):
    """The guard returned by lock_site is not dropped on any path before `access`."""
    g = lock_site.node()["dest"]["l"]
    locs = {g}
    # follow whole-local moves of the guard
    changed = True
    while changed:
        changed = False
        for l, ds in body.defs.items():
            for site, kind, node in ds:
                if kind == "assign" and node["rv"]["k"] == "use":
                    o = node["rv"]["o"]
                    p = o.get("m")
                    if p and not p["pj"] and p["l"] in locs and l not in locs:
                        locs.add(l)
                        changed = True
    for d in body.drops(view="normal"):
        p = d.node()["p"]
        if p["l"] in locs and not p["pj"]:
            if body.reaches(d, access) and body.reaches(lock_site, d):
                # a drop between the lock and the access on some path
                if not body.site_dominates(access, d):
                    return False
    return True


@ob("C08.2", ["C08", "C24", "C16"], "with a drop/re-lock between lookup and insert two threads interning equal values both miss and both insert: two handles for one value", kind="ORDER")
def c08_2(cx):
    """intern_id acquires the shard lock exactly once, before key_map.find; the guard is live at every key-map / LRU mutation and at the calls of intern_id_cold and find_reusable_slot; intern_id_cold / insert_value / find_reusable_slot take no lock themselves (they receive &mut IngredientShard)."""
    b = cx.fn(IN + r"intern_id$")
    lk = cx.one_call(b, LOCK, "shard lock in intern_id")
    cx.flow(b, cx.arg(lk, 0), [r"get_unchecked\(.*\$1\.shards.*, interned::IngredientImpl::<C>::shard\(\$1, <FxBuildHasher as std::hash::BuildHasher>::hash_one\(\$1\.hasher, \$4\)\)\)"], [r"shards\[const:", r"get_unchecked\(.*const:\d+\)"],
            "the lock taken is the shard selected by the key's hash", lk)
    find = cx.one_call(b, r"^hashbrown::HashTable::<T, A>::find$", "key_map.find")
    cx.order(lk, find, "lookup happens under the lock")
    muts = b.calls(r"^hashbrown::HashTable::<T, A>::(insert_unique|find_entry|reserve)$|LinkedList::<A>::(push_front|cursor_mut_from_ptr)$|^interned::IngredientImpl::<C>::(intern_id_cold|find_reusable_slot|insert_value)$|OccupiedEntry::<'a, T, A>::remove$")
    cx.sites(muts, 6, "key-map/LRU mutation and cold-insert sites in intern_id")
    for m in muts:
        ok = b.site_dominates(lk, m) and guard_live_at(b, lk, m)
        cx.check(ok, "same critical section as the lookup: lock held at %s" % b.callee(m).split("::")[-1], m, key="locked " + b.callee(m))
    for name in ("intern_id_cold", "insert_value", "find_reusable_slot"):
        f = cx.fn(IN + name + "$")
        cx.check(not f.calls(LOCK), "%s takes no lock of its own (operates on the caller's locked shard)" % name, body=f, key="no-lock " + name)
        cx.check(any("&mut interned::IngredientShard" == t for t in f.info.get("inputs", [])), "%s receives &mut IngredientShard" % name, body=f, key="takes-shard " + name)


@ob("C08.3", ["C08"], "a shard that depends on anything but the key's hash, or an equality that is not the fields' own, makes equal values miss each other", kind="FLOW")
def c08_3(cx):
    """hash = self.hasher.hash_one(&key); shard index = self.shard(hash); the cold path stores that shard index in the value and inserts with that hash; value_eq is HashEqLike::eq(stored fields, key); value_hash is hasher.hash_one(stored fields)."""
    b = cx.fn(IN + r"intern_id$")
    find = cx.one_call(b, r"^hashbrown::HashTable::<T, A>::find$", "key_map.find")
    h = r"^<FxBuildHasher as std::hash::BuildHasher>::hash_one\(\$1\.hasher, \$4\)$"
    cx.flow(b, cx.arg(find, 1), [h], [r"^const:"], "lookup uses the key's hash", find)
    for c in cx.some_calls(b, IN + r"intern_id_cold$", 2, "intern_id_cold calls"):
        a = cx.args(c)
        cx.flow(b, a[7], [h], [r"^const:"], "cold insert uses the same hash", c)
        cx.flow(b, a[6], [r"^interned::IngredientImpl::<C>::shard\(\$1, <FxBuildHasher as std::hash::BuildHasher>::hash_one\(\$1\.hasher, \$4\)\)$"], [r"^const:"], "cold insert records the same shard index", c)
        cx.flow(b, a[1], [r"^\$4$"], [], "cold insert interns the looked-up key", c)
    iu = cx.one_call(b, r"^hashbrown::HashTable::<T, A>::insert_unique$", "insert_unique in the reuse path")
    cx.flow(b, cx.arg(iu, 1), [h], [r"^const:", r"old_hash|fields"], "the reused slot is re-inserted under the NEW key's hash", iu)
    cb = cx.closure_passed_to(b, r"^hashbrown::HashTable::<T, A>::find$")
    cx.must_call(cb, IN + r"value_eq$", "the lookup's eq closure is value_eq")
    ve = cx.fn(IN + r"value_eq$")
    eq = cx.one_call(ve, r"^interned::HashEqLike::eq$", "HashEqLike::eq in value_eq")
    a = cx.args(eq)
    cx.flow(ve, a[0], [r"from_internal_data\(.*\$1\.fields.*\)$"], [], "compares the stored fields", eq)
    cx.flow(ve, a[1], [r"^\$2$"], [], "against the key", eq)
    cx.flow(ve, ve.origin_local(0), [r"^<.* as interned::HashEqLike>::eq\("], [r"^const:"], "value_eq returns that comparison")
    vh = cx.fn(IN + r"value_hash$")
    cx.flow(vh, vh.origin_local(0), [r"hash_one\(\$1\.hasher, .*\$2\.fields"], [r"^const:"], "value_hash hashes the stored fields with the ingredient's hasher")
    cold = cx.fn(IN + r"intern_id_cold$")
    cb2 = cx.closure_passed_to(cold, r"^zalsa_local::ZalsaLocal::allocate$")
    agg = cx.one(cb2.aggregates(r"^interned::Value$"), "Value aggregate in the cold path")
    o = cb2._origin_def(agg, "assign", agg.node(), 0, None, ())
    cx.flow(cb2, o, [r"^Value\{shard: \$1\.0"], [r"^Value\{shard: const:"], "Value.shard := the shard index passed in", agg)
    iv = cx.one_call(cold, IN + r"insert_value$", "insert_value in the cold path")
    a = cx.args(iv)
    cx.flow(cold, a[1], [r"^\$6$"], [], "inserts into the caller's locked shard", iv)
    cx.flow(cold, a[2], [r"^\$8$"], [], "under the key's hash", iv)
    cx.flow(cold, a[3], [r"ZalsaLocal::allocate.*\)\.1$"], [], "the value just allocated", iv)
    sh = cx.fn(IN + r"shard$")
    cx.flow(sh, sh.origin_local(0), [r"^\(\(\$2 Shl const:7\) Shr \$1\.shift\)$"], [], "shard(hash) depends only on the hash and the fixed shift")


@ob("C08.4", ["C08", "C07", "C01"], "reading another slot's fields returns values that were not interned under this handle", kind="FLOW")
def c08_4(cx):
    """data(zalsa, id) returns from_internal_data(&*table.get::<Value<C>>(id).fields.get()); fields(s) = data(as_id(s))."""
    d = cx.fn(IN + r"data$")
    cx.flow(d, d.origin_local(0), [r"^interned::IngredientImpl::<C>::from_internal_data\(table::Table::get(::<[^()]*>)?\(zalsa::Zalsa::table\(\$2\), \$3\)\.fields\)$"], [r"const:"], "data() reads the fields of the slot named by the id")
    f = cx.fn(IN + r"fields$")
    c = cx.one_call(f, IN + r"data$", "data call in fields")
    cx.flow(f, cx.arg(c, 2), [r"as_id\(\$3\)$"], [], "fields(s) reads the slot of s's id", c)


UC = r"^std::cell::UnsafeCell::<T>::get$"
CELLS = r"\.(metadata|durability|fields|memos)$"

# documented lock-free readers / exclusive-access paths (DESIGN.md Appendix E), each with its reason
UNLOCKED_OK = {
    r"^interned::IngredientImpl::<C>::data$": "reads fields of a value validated in the current revision (documented contract; debug assertion)",
    r"^interned::Value::<C>::fields$": "public accessor used after validation",
    r"^<interned::Value<C> as table::Slot>::memos$": "Slot::memos: shared access to the memo table of a validated value",
    r"^<interned::Value<C> as table::Slot>::memos_mut$": "&mut self",
    r"^interned::Value::<C>::memory_usage$": "unsafe fn, lock held by caller (memory_usage takes all shard locks)",
    r"^<interned::IngredientImpl<C> as ingredient::Ingredient>::memory_usage": "takes all shard raw locks around the scan",
    r"serialize|Serialize|persistence": "exclusive database access while serializing (documented)",
    r"deserialize|Deserialize|visit_": "exclusive database access while deserializing",
}


@ob("C08.1", ["C08", "C09", "C23", "C16", "C07"], "an unsynchronised access to a value's metadata/durability/fields/memos races with slot reuse under the shard lock", kind="LOCKED")
def c08_1(cx):
    """Every UnsafeCell::get on Value.{lru.metadata, durability, fields, memos} is (a) dominated by a live shard-lock guard in the same body, (b) in a body that receives &mut IngredientShard / &mut self, (c) in an `unsafe fn` (contract: caller holds the lock), (d) in a closure created under (a)-(c), or (e) a listed documented exception."""
    n = 0
    for body in cx.facts.all_bodies():
        if not body.file.endswith("interned.rs"):
            continue
        for s in body.calls(UC):
            o = cx.arg(s, 0)
            if not re.search(CELLS, o):
                continue
            n += 1
            why = classify_access(cx, body, s)
            cx.check(why is not None, "cell access %s is synchronised (%s)" % (o.split(".")[-1], why or "NO lock, no &mut, not an unsafe fn, not a listed exception"), s, {"cell": o[-80:]}, key="locked-access %s %s" % (body.path, o.split(".")[-1]))
    cx.require(n >= 14, "expected >= 14 unsynchronised-cell accesses in interned.rs, found %d" % n)


def classify_access(cx, body, s, depth=0, assume=None):
    """Why the access at site s is synchronised, or None.  `assume`: {param index of an enclosing
    unsafe fn: bool value under which the access is reachable} (conditional contracts such as
    entries_inner(should_lock))."""
    locks = [l for l in body.calls(LOCK) if body.site_dominates(l, s)]
    for l in locks:
        if guard_live_at(body, l, s):
            return "shard lock held"
    ins = body.info.get("inputs", [])
    if any(t.startswith("&mut interned::IngredientShard") for t in ins):
        return "&mut IngredientShard parameter"
    if any(t.startswith("&mut interned::IngredientImpl") or t.startswith("&mut interned::Value") for t in ins):
        return "&mut self"
    for rx, why in UNLOCKED_OK.items():
        if re.search(rx, body.path):
            return "documented: " + why
    if body.info.get("unsafe") and body.kind != "Closure" and not re.match(r"^<.* as ingredient::Ingredient>::", body.path) and depth < 3:
        # an inherent `unsafe fn` (contract: the caller holds the lock) - the contract is checked at
        # every caller in the crate.  Methods of the `Ingredient` trait are NOT exempt: their unsafe
        # contract concerns the database pointer, not the shard lock, and their callers are dynamic.
        callers = cx.facts.call_sites_of("^" + re.escape(body.path) + "$")
        whys = []
        for c in callers:
            skip = False
            for pi, val in (assume or {}).items():
                a = cx.arg(c, pi - 1)
                if a in ("const:0", "const:1") and (a == "const:1") != val:
                    skip = True  # this caller never reaches the access (e.g. entries_inner(true, ..))
            if skip:
                whys.append("caller passes the flag under which the access is not reached")
                continue
            whys.append(classify_access(cx, c.body, c, depth + 1))
        if all(whys):
            return "unsafe fn whose contract requires the lock; %d caller(s) checked: %s" % (len(callers), "; ".join(sorted(set(whys))) or "no caller in this configuration")
        return None
    if body.kind == "Closure" and depth < 3:
        parent = cx.facts.body(body.info["parent"])
        if parent is not None:
            for cs in parent.aggregates(r".*"):
                rv = cs.node()["rv"]
                if rv.get("ak") == "closure" and rv.get("def") == body.path:
                    # flags captured from the parent's parameters under which s is reachable
                    asm = {}
                    eng = OnlyIf(cx.facts, body)
                    for ci, op in enumerate(rv.get("ops", [])):
                        po = parent.origin_op(op, 0, None, cs)
                        m = re.match(r"^\$(\d+)$", po)
                        if not m:
                            continue
                        for val in (False, True):
                            if eng.guarded(s, BoolIs(r"^\$1\.%d$" % ci, val)):
                                asm[int(m.group(1))] = val
                    w = classify_access(cx, parent, cs, depth + 1, asm)
                    if w:
                        return "closure created where: " + w
    return None


@ob("C08.5", ["C08", "C09"], "a value interned in every revision whose stamp is not refreshed becomes stale and is reclaimed: it loses its identity", kind="ONLYIF+FLOW")
def c08_5(cx):
    """Fast path: metadata.last_interned_at := current_revision whenever it is older; a reusable value is then moved to the LRU front; the id returned is the stored id; interned maybe_changed_after refreshes last_interned_at too."""
    b = cx.fn(IN + r"intern_id$")
    st = [x for x in cx.stores(b) if x[1].endswith(".last_interned_at")]
    cx.sites(st, 1, "store to last_interned_at in intern_id")
    cur = r"^zalsa::Zalsa::current_revision\(\$2\)$"
    for s, po, vo in st:
        cx.flow(b, vo, [cur], [r"^const:", r"Revision::start"], "last_interned_at := current revision", s)
        cx.skipped_only_if(b, s, Cmp(r"\.last_interned_at$", ">=", cur, desc="already interned in this revision"), "refresh skipped only if last_interned_at >= current revision",
                           exits=[x.bb for x in cx.some_calls(b, r"^interned::report_tracked_read_if_reusable$", 1, "report call")][:1])
    m = cx.fn(r"^<interned::IngredientImpl<C> as ingredient::Ingredient>::maybe_changed_after$")
    st = [x for x in cx.stores(m) if x[1].endswith(".last_interned_at")]
    cx.sites(st, 1, "store to last_interned_at in maybe_changed_after")
    for s, po, vo in st:
        cx.flow(m, vo, [r"^zalsa::Zalsa::current_revision\(\$2\)$"], [r"^const:"], "validation refreshes last_interned_at", s)
        lk = cx.one_call(m, LOCK, "shard lock in maybe_changed_after")
        cx.check(m.site_dominates(lk, s) and guard_live_at(m, lk, s), "validation refresh happens under the shard lock", s, key="mca-locked")
    for body, what in ((b, "intern_id"), (m, "maybe_changed_after")):
        rec = cx.one_call(body, r"^interned::RevisionQueue::record$", "revision_queue.record in " + what)
        cx.skipped_only_if(body, rec, Cmp(r"Configuration::REVISIONS", "==", r"interned::IMMORTAL"), "%s: record skipped only for IMMORTAL" % what,
                           exits=[body.calls(LOCK)[0].bb])


# ---------------------------------------------------------------------------------------------
# C09


@ob("C09.1", ["C09", "C07"], "reusing a value interned under a durable query (or of an immortal type) changes an id that durable memos still hold without any revision bump that would invalidate them", kind="ONLYIF")
def c09_1(cx):
    """is_reusable::<C>(d) is true only if C::REVISIONS != IMMORTAL and d == Durability::LOW."""
    b = cx.fn(r"^interned::is_reusable$")
    cx.returns_only_if(b, True, Cmp(r"Configuration::REVISIONS", "!=", r"interned::IMMORTAL", desc="REVISIONS != IMMORTAL"))
    cx.returns_only_if(b, True, Cmp(r"^\$1$", "==", r"Durability::LOW", desc="durability == LOW"))
    f = cx.facts
    cx.check(f.const("interned::IMMORTAL") == (1 << 64) - 1, "IMMORTAL == usize::MAX", body=b, detail={"IMMORTAL": f.const("interned::IMMORTAL")}, key="immortal")
    cx.check(f.const("interned::DEFAULT_REVISIONS") == 3, "default REVISIONS is 3", body=b, detail={"DEFAULT_REVISIONS": f.const("interned::DEFAULT_REVISIONS")}, key="default-revs")


@ob("C09.2", ["C09", "C08", "C07", "C02"], "a non-reusable value on the LRU list becomes a reuse candidate", kind="ONLYIF")
def c09_2(cx):
    """Every lru.push_front is guarded by is_reusable(durability) (intern_id fast path and reuse path) or by insert_value's `reusable` flag = is_reusable(value.durability); the durability recorded on a re-interned value is max(old, stamp.durability) and a value that stops being reusable is unlinked."""
    b = cx.fn(IN + r"intern_id$")
    pf = cx.some_calls(b, r"LinkedList::<A>::push_front$", 2, "push_front in intern_id")
    for p in pf:
        cx.only_if(b, p, CallIs(r"^interned::is_reusable$", True), "LRU insertion only for reusable values")
    inner = cx.fn(IN + r"insert_value::inner$")
    p = cx.one_call(inner, r"LinkedList::<A>::push_front$", "push_front in insert_value::inner")
    cx.only_if(inner, p, BoolIs(r"^\$5$", True, desc="reusable"), "cold insert links the value only if `reusable`")
    iv = cx.fn(IN + r"insert_value$")
    c = cx.one_call(iv, IN + r"insert_value::inner$", "inner call")
    cx.flow(iv, cx.arg(c, 4), [r"^interned::is_reusable\(.*\$4\.durability\)?\)$"], [r"^const:1$"], "`reusable` = is_reusable(value.durability)", c)
    st = [x for x in cx.stores(b) if re.search(r"\.durability$", x[1])]
    mx = [x for x in st if "cmp::max" in x[2]]
    cx.check(len(mx) >= 1, "re-interning records max(old durability, stamp.durability)", (mx or st or [(None,)])[0][0], {"stores": [x[2][:120] for x in st]}, key="durability-max", body=b)
    for s, po, vo in mx:
        cx.flow(b, vo, [r"^std::cmp::max(::<durability::Durability>)?\(.*\.durability, zalsa_local::ZalsaLocal::active_query\(\$3\)@Some\.0\.1\.durability\)$"], [r"cmp::min"], "durability := max(old, active query's durability)", s)
    rem = b.calls(r"CursorMut::<'a, A>::remove$")
    cx.sites(rem, 3, "LRU unlink sites in intern_id")


@ob("C09.3", ["C09", "C07", "C08", "C01"], "reclaiming a value that is not stale (interned in one of the last REVISIONS active revisions, or before the queue is primed) changes a live value's identity", kind="ONLYIF")
def c09_3(cx):
    """The reuse path (fields replace / metadata overwrite) is reached only if revision_queue.is_primed() and find_reusable_slot returned Some; find_reusable_slot::inner returns Some only if is_stale(metadata.last_interned_at) and next_generation() is Some; is_stale(r) is true only if oldest != start and r < oldest; is_primed only if oldest > start; the scan starts at lru.back_mut()."""
    b = cx.fn(IN + r"intern_id$")
    rep = cx.one_call(b, r"^std::mem::replace$", "fields replacement in the reuse path")
    cx.only_if(b, rep, CallIs(r"^interned::RevisionQueue::is_primed$", True), "slot reuse only once the revision queue is primed")
    cx.only_if(b, rep, VariantIn(r"find_reusable_slot\(", {"Some"}), "slot reuse only if a stale slot was found")
    cx.flow(b, cx.arg(rep, 0), [r"find_reusable_slot\(.*\)@Some\.0\.1\.fields"], [], "the replaced fields belong to the slot found", rep)
    inner = cx.fn(IN + r"find_reusable_slot::inner$")
    stale = CallIs(r"^interned::RevisionQueue::is_stale$", True, [r"^\$1$", r"\.last_interned_at$"], desc="is_stale(last_interned_at)")
    for s in cx.ret_sites(inner, "Some"):
        cx.only_if(inner, s, stale, "a slot is offered only if it is stale")
        cx.only_if(inner, s, VariantIn(r"^id::Id::next_generation\(", {"Some"}), "a slot is offered only with a fresh generation")
        o = inner._origin_def(s, "assign", s.node(), 0, None, ())
        cx.flow(inner, o, [r"new_id: id::Id::next_generation\(.*\.id\)@Some\.0"], [r"new_id: .*\.id\}"], "new_id = old_id.next_generation()", s)
    cx.some_calls(inner, r"LinkedList::<A>::back_mut$", 1, "scan starts at the LRU back")
    cx.check(not inner.calls(r"LinkedList::<A>::front_mut$|cursor_mut\b"), "the scan never starts at the front (most recently used)", body=inner, key="no-front")
    st = cx.fn(r"^interned::RevisionQueue::is_stale$")
    oldest = r"^revision::AtomicRevision::load\(core::slice::<impl \[T\]>::last\(\$1\.revisions\)@Some\.0\)$"
    cx.returns_only_if(st, True, Cmp(r"^\$2$", "<", oldest, desc="revision < oldest"))
    cx.returns_only_if(st, True, Cmp(oldest, "!=", r"^revision::Revision::start\(\)$", desc="oldest != Revision::start()"))
    cx.returns_only_if(st, True, VariantIn(r"last\(\$1\.revisions\)$", {"Some"}))
    pr = cx.fn(r"^interned::RevisionQueue::is_primed$")
    cb = cx.closure_passed_to(pr, r"^std::option::Option::<T>::is_some_and$")
    cx.flow(cb, cb.origin_local(0), [r"^<Revision as std::cmp::PartialOrd>::gt\(revision::AtomicRevision::load\(\$2\), revision::Revision::start\(\)\)$"], [r"::ge\(", r"^const:1$"], "is_primed: oldest > Revision::start()")
    cx.flow(pr, cx.arg(cx.one_call(pr, r"^std::option::Option::<T>::is_some_and$", "is_some_and"), 0), [r"last\(\$1\.revisions\)$"], [r"first\("], "is_primed looks at the OLDEST slot")


@ob("C09.4", ["C09", "C08"], "a queue that forgets an active revision (or records one twice) shifts the staleness horizon", kind="FLOW")
def c09_4(cx):
    """RevisionQueue::record returns early iff revisions[0] >= revision, else record_cold: shifts i-1 -> i from the tail down and stores the new revision at index 0."""
    r = cx.fn(r"^interned::RevisionQueue::record$")
    c = cx.one_call(r, r"^interned::RevisionQueue::record_cold$", "record_cold call")
    cx.skipped_only_if(r, c, Cmp(r"AtomicRevision::load\(\$1\.revisions\[const:0\]\)$", ">=", r"^\$2$"), "record is a no-op only if revisions[0] >= revision")
    k = cx.fn(r"^interned::RevisionQueue::record_cold$")
    sts = cx.some_calls(k, r"^revision::AtomicRevision::store$", 2, "stores in record_cold")
    heads = [s for s in sts if re.search(r"\.revisions\[const:0\]$", cx.arg(s, 0))]
    cx.check(len(heads) == 1, "exactly one store to revisions[0]", (heads or sts)[0], key="head-store")
    for s in heads:
        cx.flow(k, cx.arg(s, 1), [r"^\$2$"], [r"^const:"], "revisions[0] := the new revision", s)
    shifts = [s for s in sts if s not in heads]
    for s in shifts:
        cx.flow(k, cx.arg(s, 1), [r"AtomicRevision::load\(\$1\.revisions\[\(.* Sub(WithOverflow)? const:1\)(\.0)?\]\)$"], [r"Add const:1"], "revisions[i] := revisions[i-1]", s)
        for h in heads:
            cx.check(not k.reaches(h, s), "the shift happens before slot 0 is overwritten", s, key="shift-before-head")
    cx.some_calls(k, r"^std::iter::Iterator::rev$", 1, "shift iterates from the tail")
    lk = cx.some_calls(k, LOCK, 1, "record_cold serialises writers")[0]
    # the guard must stay alive across the re-check and the whole shift: `let _ = lock()` drops it at once and two
    # threads recording the first interning of a revision both shift the queue (the revision is recorded twice)
    rechecks = [s for s in k.calls(r"^revision::AtomicRevision::load$") if re.search(r"\.revisions\[const:0\]$", cx.arg(s, 0))]
    cx.sites(rechecks, 1, "re-check of revisions[0] under the lock")
    for s in sts + rechecks:
        cx.check(k.site_dominates(lk, s) and guard_live_at(k, lk, s), "the queue is re-checked and shifted while the writer lock is held", s, key="revq-locked %s" % ("store" if s in sts else "recheck"))
    cx.skipped_only_if(k, heads[0], Cmp(r"AtomicRevision::load\(\$1\.revisions\[const:0\]\)$", ">=", r"^\$2$", desc="already recorded (re-check under the lock)"), "record_cold gives up only if another thread already recorded the revision") if heads else None


@ob("C01.1i", ["C01", "C07", "C09"], "a query that obtained a reusable interned id without recording the read keeps that id after the slot was reclaimed for another value", kind="MUSTCALL")
def c01_1i(cx):
    """intern_id records the read on every return path: report_tracked_read_if_reusable is called (directly, or through intern_id_cold which must-call it) on every path; the helper reports a full tracked read (key, durability, revision) iff the value is reusable and otherwise still folds the revision into the stamp; the revision reported is the current one."""
    b = cx.fn(IN + r"intern_id$")
    cx.must_call(b, r"^interned::report_tracked_read_if_reusable$", "every return path of intern_id records the read (fast, reuse and cold paths)")
    cold = cx.fn(IN + r"intern_id_cold$")
    cx.must_call(cold, r"^interned::report_tracked_read_if_reusable$", "the cold path records the read")
    for body in (b, cold):
        for c in cx.some_calls(body, r"^interned::report_tracked_read_if_reusable$", 1, "report call"):
            a = cx.args(c)
            cx.flow(body, a[2], [r"^zalsa::Zalsa::current_revision\(\$[23]\)$"], [r"^const:", r"Revision::start", r"last_interned_at"], "interned reads are stamped with the current revision", c)
            cx.flow(body, a[1], [r"^interned::IngredientImpl::<C>::database_key_index\(\$1, "], [], "the key recorded names this ingredient", c)
    h = cx.fn(r"^interned::report_tracked_read_if_reusable$")
    full = cx.one_call(h, r"ZalsaLocal::report_tracked_read_simple$", "full read report")
    rev = cx.one_call(h, r"ZalsaLocal::report_tracked_read_revision$", "revision-only report")
    cx.skipped_only_if(h, full, CallIs(r"^interned::is_reusable$", False), "the dependency edge is omitted only for non-reusable values")
    cx.must_call(h, r"ZalsaLocal::report_tracked_read_(simple|revision)$", "the revision is folded into the stamp on every path")
    a = cx.args(full)
    cx.check(a[1] == "$2" and a[2] == "$4" and a[3] == "$3", "the full report forwards (index, durability, current_revision)", full, {"args": a}, key="forward-full")
    cx.flow(h, cx.arg(rev, 1), [r"^\$3$"], [], "the revision-only report forwards current_revision", rev)


@ob("C07.2", ["C07", "C09", "C23", "C01"], "a recycled interned slot that keeps the memos (or the id) of the previous value serves results computed for the old data to the new handle", kind="MUSTCALL+FLOW (slot recycling protocol)")
def c07_2(cx):
    """intern_id reuse path: the new fields are assembled with slot.new_id; the stale entry is removed from the key map under the OLD fields' hash (computed before the fields are replaced) and re-inserted under the new key's hash; metadata.id := slot.new_id, durability := the interning query's; clear_memos(zalsa, &mut value.memos, slot.old_id) is reached on every path after the fields were replaced; the id returned is slot.new_id. clear_memos::inner takes every memo out of the table, raising DidDiscard and removing its outputs under (memo ingredient, id), and drops the table through a guard."""
    b = cx.fn(IN + r"intern_id$")
    slot = r"find_reusable_slot\(.*\)@Some\.0\.0"
    val = r"find_reusable_slot\(.*\)@Some\.0\.1"
    rp = cx.one_call(b, r"^std::mem::replace$", "fields replacement in the reuse path")
    ra = cx.args(rp)
    cx.flow(b, ra[0], [val + r"\.fields$"], [], "the fields replaced are the recycled slot's", rp)
    cx.flow(b, ra[1], [r"^interned::IngredientImpl::<C>::to_internal_data\(\$1, <\w+ as std::ops::FnOnce>::call_once\(\$5, tuple\{0: .*" + slot + r"\.new_id, 1: \$4\}\)\)$"], [r"\.old_id, 1: \$4"], "the new fields are assembled under the NEW id", rp)
    cm = cx.one_call(b, IN + r"clear_memos$", "clear_memos in the reuse path")
    ca = cx.args(cm)
    cx.check(ca[0] == "$1" and ca[1] == "$2", "clear_memos runs against this ingredient and database", cm, key="cm-self")
    cx.flow(b, ca[2], [val + r"\.memos$"], [], "the memo table cleared is the recycled slot's", cm)
    cx.flow(b, ca[3], [slot + r"\.old_id$"], [slot + r"\.new_id$"], "memos are discarded under the OLD id (the identity they were computed for)", cm)
    reach = b.reachable(rp.bb, "normal", cut_blocks={cm.bb})
    bad = [r for r in b.return_blocks() if r in reach]
    cx.check(not bad, "once the fields are replaced every path clears the old memos before returning", cm, key="cm-always")
    md = [x for x in cx.stores(b) if re.search(val + r"\.lru\.metadata$", x[1])]
    cx.sites(md, 1, "metadata overwrite in the reuse path")
    for s, po, vo in md:
        cx.flow(b, vo, [r"^EntryMetadata\{id: .*" + slot + r"\.new_id, last_interned_at: "], [r"id: .*\.old_id,"], "the slot's id becomes slot.new_id", s)
    rets = [(site, b._origin_def(site, kind, node, 0, None, ())) for site, kind, node in _value_defs(b, 0)]
    reuse_ret = [(s, o) for s, o in rets if b.reaches(rp, s)]
    cx.sites(reuse_ret, 1, "return of the reuse path")
    for s, o in reuse_ret:
        cx.flow(b, o, [slot + r"\.new_id$"], [r"\.old_id$"], "the id handed out for the recycled slot is the new generation", s)
    fe = cx.one_call(b, r"^hashbrown::HashTable::<T, A>::find_entry$", "stale key-map entry lookup")
    fa = cx.args(fe)
    cx.flow(b, fa[1], [r"^<FxBuildHasher as std::hash::BuildHasher>::hash_one\(\$1\.hasher, .*" + val + r"\.fields\)$"], [r"hash_one\(\$1\.hasher, \$4\)$"], "the stale entry is looked up under the OLD fields' hash", fe)
    oh = [s for s in b.calls(r"BuildHasher::hash_one$") if re.search(val + r"\.fields$", cx.arg(s, 1))]
    cx.sites(oh, 1, "hash of the old fields")
    cx.order(oh[0], rp, "the old hash is computed before the fields are replaced")
    rm = [s for s in b.calls(r"OccupiedEntry::<'a, T, A>::remove$") if b.reaches(fe, s)]
    cx.sites(rm, 1, "removal of the stale entry")
    iu = [s for s in b.calls(r"^hashbrown::HashTable::<T, A>::insert_unique$")]
    cx.sites(iu, 1, "re-insert under the new hash")
    for s in iu:
        cx.flow(b, cx.arg(s, 1), [r"^<FxBuildHasher as std::hash::BuildHasher>::hash_one\(\$1\.hasher, \$4\)$"], [val + r"\.fields"], "the recycled slot is re-inserted under the new key's hash", s)
        cx.flow(b, cx.arg(s, 2), [r"^interned::ValueKey::new\(.*" + val + r"\)$"], [], "the entry re-inserted is the recycled slot", s)
        cx.order(rm[0], s, "remove-then-insert")
        reach = b.reachable(rm[0].bb, "normal", cut_blocks={s.bb})
        cx.check(not [r for r in b.return_blocks() if r in reach], "after the stale entry is removed every path re-inserts the slot", s, key="reinsert-always")
    ci = cx.fn(IN + r"clear_memos::inner$")
    tk = cx.one_call(ci, r"take_memos", "take_memos in clear_memos")
    cb = cx.closure_passed_to(ci, r"take_memos")
    rmo = cx.one_call(cb, r"remove_outputs$", "remove_outputs per memo")
    cx.flow(cb, cx.arg(rmo, 2), [r"^key::DatabaseKeyIndex::new\(zalsa::Zalsa::ingredient_index_for_memo\(\$1\.\d+, \$1\.\d+, \$2\), \$1\.\d+\)$"], [], "outputs are removed under (the memo's function ingredient, the old id)", rmo)
    cx.check(cx.facts.must_call(cb, r"remove_outputs$"), "every memo taken has its outputs removed", rmo, key="rm-outputs-always")
    g = cx.facts.drop_impl(r"clear_memos::inner::TableDropGuard")
    cx.require(g is not None, "TableDropGuard has a Drop impl")
    cx.check(bool(g.calls(r"MemoTableWithTypesMut::<'.*>::drop$|MemoTableWithTypesMut.*::drop$")), "the guard frees the memo table (also on unwind)", body=g, key="guard-drops")
    # ... and it really is dropped when the event callback unwinds out of take_memos: the unwind edge of that call
    # leads to a drop of the guard local (a guard wrapped in ManuallyDrop / forgotten up front protects nothing)
    gl = [s for s in ci.drops(r"TableDropGuard", view="full")]
    cleanup = [s for s in gl if ci.blocks[s.bb].get("cleanup")]
    cx.check(bool(cleanup), "clear_memos drops its table guard on the unwind path of take_memos", tk, {"guard_drops": [repr(s) for s in gl]}, key="guard-dropped-on-unwind")
    c0 = cx.fn(IN + r"clear_memos$")
    ic = cx.one_call(c0, IN + r"clear_memos::inner$", "delegation")
    a = cx.args(ic)
    cx.check(a[0] == "$2" and a[3] == "$3" and a[4] == "$4" and a[1] == "$1.ingredient_index", "clear_memos forwards (zalsa, own ingredient index, table, id)", ic, {"args": a}, key="cm-forward")


def _value_defs(b, l):
    from .c01_reuse import value_defs
    return value_defs(b, l)
