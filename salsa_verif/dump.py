"""Human-readable MIR dump from facts (debugging aid)."""


def pl(p):
    s = "_%d" % p["l"]
    for e in p["pj"]:
        if e == "*":
            s = "(*%s)" % s
        elif e[0] == "f":
            s += "." + e[2]
        elif e[0] == "d":
            s += " as " + e[1]
        else:
            s += "[%s]" % e[0]
    return s


def op(o):
    if "c" in o:
        return "copy " + pl(o["c"])
    if "m" in o:
        return "move " + pl(o["m"])
    if "k" in o:
        k = o["k"]
        return "const " + (k.get("variant") or k["s"][:70])
    return str(o)


def rv(r):
    k = r["k"]
    if k == "use":
        return op(r["o"])
    if k == "ref":
        return ("&mut " if r["mut"] else "&") + pl(r["p"])
    if k == "bin":
        return "%s(%s, %s)" % (r["op"], op(r["a"]), op(r["b"]))
    if k == "un":
        return "%s(%s)" % (r["op"], op(r["a"]))
    if k == "agg":
        return "agg %s %s::%s(%s)" % (r["ak"], r.get("adt", r.get("def", "")), r.get("variant", ""), ", ".join(op(x) for x in r["ops"]))
    if k == "discr":
        return "discr(%s)" % pl(r["p"])
    if k == "cast":
        return "cast<%s>(%s)" % (r["ck"], op(r["o"]))
    if k == "rawptr":
        return "&raw " + pl(r["p"])
    return k


def mirsite(body, bi):
    from .mirlib import Site
    return Site(body, bi, len(body.blocks[bi]["stmts"]))


def show(body, origins=False):
    m = body.mir
    print("==", body.path, body.file, body.info.get("lo"))
    for i, l in enumerate(m["locals"]):
        print("  _%d: %s %s" % (i, l["ty"][:90], l["name"] or ""))
    live = body.live_blocks("full")
    for i, bl in enumerate(m["blocks"]):
        if i not in live:
            continue
        print(" bb%d%s:" % (i, " (cleanup)" if bl["cleanup"] else ""))
        for s in bl["stmts"]:
            if s["k"] == "assign":
                print("    %s = %s   // %d %s" % (pl(s["p"]), rv(s["rv"]), s["ln"], s["exp"] and s["exp"][-1] or ""))
                if origins and s["p"]["pj"]:
                    print("        store: %s := %s" % (body.origin_place(s["p"]), body._origin_def(None, "assign", s, 0, None, ())))
            else:
                print("    ", s["k"], s.get("variant"), s.get("s", "")[:80])
        t = bl["term"]
        if t["k"] == "call":
            f = t["fn"]
            extra = {k: v for k, v in f.items() if k in ("self_ty", "resolved")}
            print("    %s = CALL %s(%s) -> bb%s unwind %s  // %d %s" % (pl(t["dest"]), f.get("def", f.get("op")), ", ".join(op(a) for a in t["args"]), t["t"], t["u"], t["ln"], extra or ""))
            if origins:
                for a in t["args"]:
                    print("        arg origin:", body.origin_op(a, 0, None, mirsite(body, i)))
        elif t["k"] == "switch":
            print("    switch %s %s else bb%d // %d" % (op(t["o"]), t["targets"], t["otherwise"], t["ln"]))
            if origins:
                print("        discr origin:", body.origin_op(t["o"], 0, None, mirsite(body, i)))
        elif t["k"] == "drop":
            print("    drop %s [%s] -> bb%d unwind %s" % (pl(t["p"]), t["ty"][:60], t["t"], t["u"]))
        elif t["k"] == "goto":
            print("    goto bb%d" % t["t"])
        elif t["k"] == "assert":
            print("    assert %s == %s -> bb%s // %s" % (op(t["cond"]), t["expected"], t["t"], t["msg"][:40]))
        else:
            print("    ", t["k"], t.get("t"))
