"""mirlib: static analyses over the MIR facts dumped by tools/mirfacts.

Everything here reads facts produced by rustc from /repo's *source*; nothing executes salsa.

Main pieces
  Facts / Body          -- loaded facts, pruned CFG (constant branches folded), def tables
  origin()              -- reaching-definition origin expressions rendered as canonical strings
  dominators / reach    -- CFG queries (normal view = unwind edges removed, full view = all edges)
  Lit + implies/guarded -- "site S is reached only if literal L holds" via edge-cut reachability,
                           looking through bool temporaries and same-crate helper bodies
  must-call summaries   -- callees executed on every normal path
"""
from __future__ import annotations

import json
import re
from collections import defaultdict
from functools import lru_cache

# ---------------------------------------------------------------------------------------------
# facts


class Site:
    """A program point: block index + statement index (== len(stmts) for the terminator)."""

    __slots__ = ("body", "bb", "idx")

    def __init__(self, body, bb, idx):
        self.body = body
        self.bb = bb
        self.idx = idx

    def is_term(self):
        return self.idx == len(self.body.blocks[self.bb]["stmts"])

    def node(self):
        b = self.body.blocks[self.bb]
        return b["term"] if self.is_term() else b["stmts"][self.idx]

    def line(self):
        return self.node().get("ln")

    def where(self):
        return "%s:%s" % (self.body.file, self.line())

    def key(self):
        return (self.bb, self.idx)

    def __repr__(self):
        return "<%s bb%d[%d] %s>" % (self.body.short, self.bb, self.idx, self.where())

    def __eq__(self, o):
        return isinstance(o, Site) and o.body is self.body and o.key() == self.key()

    def __hash__(self):
        return hash((id(self.body), self.bb, self.idx))


CMP_METHODS = {
    "std::cmp::PartialOrd::lt": "<",
    "std::cmp::PartialOrd::le": "<=",
    "std::cmp::PartialOrd::gt": ">",
    "std::cmp::PartialOrd::ge": ">=",
    "std::cmp::PartialEq::eq": "==",
    "std::cmp::PartialEq::ne": "!=",
}
BINOP_CMP = {"Lt": "<", "Le": "<=", "Gt": ">", "Ge": ">=", "Eq": "==", "Ne": "!="}
REL_TRUE = {
    "<": frozenset("<"),
    "<=": frozenset("<="),
    ">": frozenset(">"),
    ">=": frozenset(">="),
    "==": frozenset("="),
    "!=": frozenset("<>"),
}
ALLREL = frozenset("<=>")


def flip_rel(r):
    m = {"<": ">", ">": "<", "=": "="}
    return frozenset(m[c] for c in r)


# calls that are transparent for origin purposes: result "is" the first argument
TRANSPARENT_CALLS = {
    "std::ops::Deref::deref",
    "std::ops::DerefMut::deref_mut",
    "std::convert::AsRef::as_ref",
    "std::borrow::Borrow::borrow",
    "std::option::Option::<T>::as_ref",
    "std::option::Option::<T>::as_mut",
    "std::option::Option::<T>::as_deref",
    "std::option::Option::<&T>::copied",
    "std::option::Option::<&T>::cloned",
    "std::convert::Into::into",
    "std::convert::From::from",
    "std::ptr::NonNull::<T>::as_ref",
    "std::ptr::NonNull::<T>::as_mut",
    "std::ptr::NonNull::<T>::as_ptr",
    "std::clone::Clone::clone",
    "std::cell::UnsafeCell::<T>::get",
    "std::cell::UnsafeCell::<T>::get_mut",
}


class Body:
    def __init__(self, facts, path, info, mir=None, promoted_of=None):
        self.facts = facts
        self.path = path
        self.info = info
        m = mir if mir is not None else info["mir"]
        self.mir = m
        self.blocks = m["blocks"]
        self.locals = m["locals"]
        self.argc = m["argc"]
        self.file = info.get("file", "?")
        self.kind = info.get("kind")
        self.short = path.split("::")[-1] if not path.endswith("}") else "::".join(path.split("::")[-2:])
        self.promoted_of = promoted_of
        self._promoted = None
        self._defs = None
        self._succ_cache = {}
        self._dom = {}
        self._origin_cache = {}
        self._const_local = None

    # -- promoted bodies ----------------------------------------------------------------------
    def promoted(self, i):
        if self._promoted is None:
            self._promoted = {}
        if i not in self._promoted:
            ps = self.info.get("promoted", [])
            if i >= len(ps):
                return None
            self._promoted[i] = Body(self.facts, self.path + "::promoted[%d]" % i, self.info, ps[i], self)
        return self._promoted[i]

    # -- defs ---------------------------------------------------------------------------------
    @property
    def defs(self):
        """local -> list of (Site, kind, payload): kind in assign|call|other."""
        if self._defs is None:
            d = defaultdict(list)
            for bi, b in enumerate(self.blocks):
                for si, s in enumerate(b["stmts"]):
                    if s["k"] == "assign":
                        p = s["p"]
                        kind = "assign" if not p["pj"] else "partial"
                        d[p["l"]].append((Site(self, bi, si), kind, s))
                    elif s["k"] == "setdiscr":
                        d[s["p"]["l"]].append((Site(self, bi, si), "partial", s))
                t = b["term"]
                if t["k"] == "call":
                    p = t["dest"]
                    kind = "call" if not p["pj"] else "partial"
                    d[p["l"]].append((Site(self, bi, len(b["stmts"])), kind, t))
            self._defs = d
        return self._defs

    def full_defs(self, l):
        return [d for d in self.defs.get(l, []) if d[1] != "partial"]

    # -- constant locals (for branch folding) -------------------------------------------------
    def const_of_local(self, l, _depth=0):
        ds = self.defs.get(l, [])
        dead = getattr(self, "_dead_blocks", None)
        if dead:
            ds = [d for d in ds if d[0].bb not in dead]
        if len(ds) == 1 and ds[0][1] == "assign":
            rv = ds[0][2]["rv"]
            if rv["k"] == "use" and "k" in rv["o"] and "v" in rv["o"]["k"]:
                return int(rv["o"]["k"]["v"])
            if rv["k"] == "use" and _depth < 4:
                p = rv["o"].get("c") or rv["o"].get("m")
                if p is not None and not p["pj"] and p["l"] != l and not (1 <= p["l"] <= self.argc):
                    return self.const_of_local(p["l"], _depth + 1)
        if len(ds) > 1 and all(d[1] == "assign" and d[2]["rv"]["k"] == "use" and "k" in d[2]["rv"]["o"] and "v" in d[2]["rv"]["o"]["k"] for d in ds):
            vs = {int(d[2]["rv"]["o"]["k"]["v"]) for d in ds}
            if len(vs) == 1 and not (1 <= l <= self.argc):
                return vs.pop()
        return None

    def refine_dead_blocks(self):
        """Iterate constant-branch folding: definitions that sit in unreachable blocks do not count when
        deciding whether a tested local is constant (e.g. `let r = true; let r = r || f();`)."""
        if getattr(self, "_refined", False):
            return
        self._refined = True
        for _ in range(4):
            self._succ_cache = {}
            self._dom = {}
            live = self.reachable(0, "full")
            dead = set(range(len(self.blocks))) - live
            if dead == getattr(self, "_dead_blocks", set()):
                break
            self._dead_blocks = dead
        self._succ_cache = {}
        self._dom = {}

    def operand_const(self, op):
        if "k" in op:
            v = op["k"].get("v")
            return int(v) if v is not None else None
        p = op.get("c") or op.get("m")
        if p is not None and not p["pj"]:
            return self.const_of_local(p["l"])
        return None

    # -- CFG ----------------------------------------------------------------------------------
    def succs(self, bi, view="normal"):
        """List of (succ_bb, label). view: normal (no unwind edges) | full."""
        key = (bi, view)
        r = self._succ_cache.get(key)
        if r is not None:
            return r
        t = self.blocks[bi]["term"]
        k = t["k"]
        out = []
        if k == "goto":
            out.append((t["t"], "goto"))
        elif k == "switch":
            c = self.operand_const(t["o"])
            if c is not None:
                tgt = None
                for v, b in t["targets"]:
                    if int(v) == c:
                        tgt = (b, ("sw", int(v)))
                if tgt is None:
                    tgt = (t["otherwise"], ("sw", "otherwise"))
                out.append(tgt)
            else:
                for v, b in t["targets"]:
                    out.append((b, ("sw", int(v))))
                out.append((t["otherwise"], ("sw", "otherwise")))
        elif k in ("call", "drop", "assert"):
            if t.get("t") is not None:
                out.append((t["t"], "ret"))
            if view == "full" and isinstance(t.get("u"), int):
                out.append((t["u"], "unwind"))
        self._succ_cache[key] = out
        return out

    def reachable(self, start=0, view="normal", cut_edges=(), cut_blocks=()):
        """Blocks reachable from `start`, never traversing cut_edges {(bb,succ,label)|(bb,succ)} and
        never *leaving* a block in cut_blocks (the block itself counts as reached)."""
        cut_edges = set(cut_edges)
        cut_blocks = set(cut_blocks)
        seen = {start}
        stack = [start]
        while stack:
            b = stack.pop()
            if b in cut_blocks:
                continue
            for s, lab in self.succs(b, view):
                if (b, s) in cut_edges or (b, s, lab) in cut_edges:
                    continue
                if s not in seen:
                    seen.add(s)
                    stack.append(s)
        return seen

    def live_blocks(self, view="normal"):
        return self.reachable(0, view)

    def preds(self, view="normal"):
        key = ("preds", view)
        if key not in self._dom:
            p = defaultdict(list)
            for b in self.live_blocks(view):
                for s, lab in self.succs(b, view):
                    p[s].append((b, lab))
            self._dom[key] = p
        return self._dom[key]

    def dominators(self, view="normal"):
        """bb -> set of dominating bbs (including itself), over live blocks."""
        key = ("dom", view)
        if key in self._dom:
            return self._dom[key]
        live = sorted(self.live_blocks(view))
        preds = self.preds(view)
        dom = {b: set(live) for b in live}
        dom[0] = {0}
        changed = True
        # reverse post-order would be faster; bodies are small
        while changed:
            changed = False
            for b in live:
                if b == 0:
                    continue
                ps = [p for p, _ in preds[b] if p in dom]
                if not ps:
                    continue
                new = set.intersection(*(dom[p] for p in ps)) | {b}
                if new != dom[b]:
                    dom[b] = new
                    changed = True
        self._dom[key] = dom
        return dom

    def site_dominates(self, a: Site, b: Site, view="normal"):
        """Every path from entry to b passes a first."""
        if a.bb == b.bb:
            return a.idx < b.idx or (a.idx == b.idx)
        dom = self.dominators(view)
        return b.bb in dom and a.bb in dom[b.bb]

    def reaches(self, a: Site, b: Site, view="normal"):
        """Is there a CFG path on which a executes strictly before b?"""
        if a.bb == b.bb and a.idx < b.idx:
            return True
        for s, _ in self.succs(a.bb, view):
            if b.bb in self.reachable(s, view):
                return True
        return False

    def return_blocks(self):
        return [i for i in self.live_blocks() if self.blocks[i]["term"]["k"] == "return"]

    def back_edges(self, view="normal"):
        dom = self.dominators(view)
        out = []
        for b in self.live_blocks(view):
            for s, lab in self.succs(b, view):
                if s in dom.get(b, ()):
                    out.append((b, s))
        return out

    # -- sites --------------------------------------------------------------------------------
    def all_sites(self, view="normal"):
        for bi in sorted(self.live_blocks(view)):
            b = self.blocks[bi]
            for si in range(len(b["stmts"]) + 1):
                yield Site(self, bi, si)

    def calls(self, pat=None, view="normal", pred=None):
        """Call sites whose callee def (or resolved impl) matches regex `pat`."""
        rx = re.compile(pat) if isinstance(pat, str) else pat
        out = []
        for bi in sorted(self.live_blocks(view)):
            b = self.blocks[bi]
            t = b["term"]
            if t["k"] != "call":
                continue
            f = t["fn"]
            names = [f.get("def", ""), f.get("resolved", "") or ""]
            if rx is None or any(rx.search(n) for n in names if n):
                s = Site(self, bi, len(b["stmts"]))
                if pred is None or pred(s):
                    out.append(s)
        return out

    def callee(self, site: Site):
        t = site.node()
        f = t["fn"]
        return f.get("resolved") or f.get("def") or "<indirect>"

    def assigns(self, pred, view="normal"):
        out = []
        for bi in sorted(self.live_blocks(view)):
            b = self.blocks[bi]
            for si, s in enumerate(b["stmts"]):
                if s["k"] == "assign" and pred(s):
                    out.append(Site(self, bi, si))
        return out

    def stores_to_field(self, field_rx, view="normal"):
        """Assign statements whose destination place's *last* named field matches."""
        rx = re.compile(field_rx)

        def p(s):
            return rx.search(place_path(s["p"])) is not None and s["p"]["pj"]

        return self.assigns(p, view)

    def aggregates(self, adt_rx, variant=None, view="normal"):
        rx = re.compile(adt_rx)

        def p(s):
            rv = s["rv"]
            if rv["k"] != "agg":
                return False
            name = rv.get("adt") or rv.get("def") or ""
            if not rx.search(name):
                return False
            return variant is None or rv.get("variant") == variant

        return self.assigns(p, view)

    def drops(self, ty_rx=None, view="normal"):
        rx = re.compile(ty_rx) if ty_rx else None
        out = []
        for bi in sorted(self.live_blocks(view)):
            b = self.blocks[bi]
            t = b["term"]
            if t["k"] == "drop" and (rx is None or rx.search(t["ty"])):
                out.append(Site(self, bi, len(b["stmts"])))
        return out

    # -- origins ------------------------------------------------------------------------------
    # Origins are reaching-definition expressions. `at` (a Site) makes the lookup flow-sensitive
    # for locals with several definitions (mutable variables, reassigned parameters): only the
    # definitions that can reach `at` without being overwritten are considered.
    def origin_op(self, op, depth=0, subst=None, at=None):
        if "k" in op:
            return self._origin_const(op["k"], depth, subst)
        if "rt" in op:
            return "rt"
        p = op.get("c") or op.get("m")
        return self.origin_place(p, depth, subst, at)

    def _origin_const(self, k, depth, subst):
        if "promoted" in k:
            pb = self.promoted(k["promoted"]) if self.promoted_of is None else None
            if pb is not None:
                return pb.origin_place({"l": 0, "pj": []}, depth + 1, None)
        if "fn" in k:
            return "fn:" + k["fn"]["def"]
        if "closure" in k:
            return "closure:" + k["closure"]
        if "variant" in k and not k["ty"].startswith("&"):
            return "%s::%s" % (short_ty(k["ty"]), k["variant"])
        if "uneval" in k:
            return "const:" + k["uneval"] + (("=" + k["v"]) if "v" in k else "")
        if "v" in k:
            return "const:" + k["v"]
        return "const:" + k["s"][:80]

    def origin_place(self, p, depth=0, subst=None, at=None):
        base = self.origin_local(p["l"], depth, subst, None, at)
        return apply_proj(base, p["pj"], lambda l: self.origin_local(l, depth + 1, subst, None, at))

    def _def_reaches(self, l, dsite, at, others):
        """Can the definition at dsite (None = function entry) reach `at` without passing another
        definition of l? others: set of (bb, idx) of the other definitions."""
        kill_by_bb = defaultdict(list)
        for (b, i) in others:
            kill_by_bb[b].append(i)
        if dsite is None:
            start_bb, start_idx = 0, -1
        else:
            start_bb, start_idx = dsite.bb, dsite.idx
        # same block, straight line
        def killed_between(b, lo, hi):
            return any(lo < i < hi for i in kill_by_bb.get(b, ()))

        if start_bb == at.bb and start_idx < at.idx and not killed_between(start_bb, start_idx, at.idx):
            return True
        # is the rest of the start block free of kills?
        if any(i > start_idx for i in kill_by_bb.get(start_bb, ())):
            return False
        seen = set()
        stack = [s for s, _ in self.succs(start_bb, "full")]
        while stack:
            b = stack.pop()
            if b in seen:
                continue
            seen.add(b)
            if b == at.bb:
                if not killed_between(b, -1, at.idx):
                    return True
                # killed before reaching `at` in this block; a later kill-free loop re-entry is impossible
                continue
            if kill_by_bb.get(b):
                continue
            for s, _ in self.succs(b, "full"):
                if s not in seen:
                    stack.append(s)
        return False

    def origin_local(self, l, depth=0, subst=None, _stack=None, at=None):
        ds = self.full_defs(l)
        is_param = 1 <= l <= self.argc
        multi = len(ds) > 1 or (is_param and ds)
        atkey = at.key() if (at is not None and multi) else None
        key = (l, tuple(sorted(subst.items())) if subst else None, atkey)
        if key in self._origin_cache:
            return self._origin_cache[key]
        if depth > 14:
            return "…"
        if _stack is None:
            _stack = ()
        if l in _stack:
            return "rec"
        pname = (subst[l] if (subst is not None and l in subst) else "$%d" % l) if is_param else None
        if is_param and not ds:
            self._origin_cache[key] = pname
            return pname
        if not ds:
            r = "undef_%d" % l
            self._origin_cache[key] = r
            return r
        cands = list(ds)
        include_param = is_param
        if atkey is not None:
            allsites = {(d[0].bb, d[0].idx) for d in ds}
            cands = [d for d in ds if self._def_reaches(l, d[0], at, allsites - {(d[0].bb, d[0].idx)})]
            if is_param:
                include_param = self._def_reaches(l, None, at, allsites)
            if not cands and not include_param:
                cands = list(ds)
                include_param = is_param
        outs = []
        for site, kind, node in cands:
            outs.append(self._origin_def(site, kind, node, depth + 1, subst, _stack + (l,)))
        if include_param:
            outs.append(pname)
        u = sorted(set(outs))
        r = u[0] if len(u) == 1 else "phi{" + " | ".join(u) + "}"
        if "rec" not in r and "…" not in r:
            self._origin_cache[key] = r
        return r

    def _origin_def(self, site, kind, node, depth, subst, stack):
        at = site

        def op_place(p):
            return apply_proj(self.origin_local(p["l"], depth, subst, stack, at), p["pj"], lambda l: self.origin_local(l, depth + 1, subst, stack, at))

        def oo(op):
            if "k" in op:
                return self._origin_const(op["k"], depth, subst)
            if "rt" in op:
                return "rt"
            p = op.get("c") or op.get("m")
            return op_place(p)

        if kind == "call":
            f = node["fn"]
            name = f.get("def")
            if name is None:
                return "callind(%s)" % oo(f["op"])
            args = [oo(a) for a in node["args"]]
            if name in TRANSPARENT_CALLS and args:
                return args[0]
            if name in ("std::ops::Index::index", "std::ops::IndexMut::index_mut") and len(args) == 2:
                return "%s[%s]" % (args[0], args[1])
            st = f.get("self_ty")
            if "trait" in f and st:
                name = "<%s as %s>::%s" % (short_ty(st), f["trait"], f["name"])
            return "%s(%s)" % (name, ", ".join(args))
        rv = node["rv"]
        k = rv["k"]
        if k == "use":
            return oo(rv["o"])
        if k in ("ref", "rawptr"):
            return op_place(rv["p"])
        if k == "bin":
            return "(%s %s %s)" % (oo(rv["a"]), rv["op"], oo(rv["b"]))
        if k == "un":
            return "%s(%s)" % (rv["op"], oo(rv["a"]))
        if k == "cast":
            if rv["ck"] == "Transmute":
                return "transmute(%s)" % oo(rv["o"])
            return oo(rv["o"]) if rv["ck"].startswith(("PtrToPtr", "PointerCoercion", "IntToInt", "Subtype")) else "cast(%s)" % oo(rv["o"])
        if k == "discr":
            return "discr(%s)" % op_place(rv["p"])
        if k == "agg":
            ak = rv["ak"]
            ops = [oo(o) for o in rv["ops"]]
            if ak == "adt":
                fs = rv.get("fields", [])
                inner = ", ".join("%s: %s" % (fs[i] if i < len(fs) else i, o) for i, o in enumerate(ops))
                st = short_ty(rv["adt"])
                if st == rv["variant"]:
                    return "%s{%s}" % (st, inner)
                return "%s::%s{%s}" % (st, rv["variant"], inner)
            if ak == "closure":
                return "closure:%s[%s]" % (rv["def"], ", ".join(ops))
            if ak == "tuple":
                return "tuple{%s}" % ", ".join("%d: %s" % (i, o) for i, o in enumerate(ops))
            return "%s(%s)" % (ak, ", ".join(ops))
        if k == "repeat":
            return "repeat(%s)" % oo(rv["o"])
        return k


def short_ty(s):
    """Drop generic args and module path from a type string (readability of origins)."""
    if s.startswith("["):
        return s
    s = re.sub(r"<.*>", "", s)
    s = s.lstrip("&").replace("mut ", "")
    return s.split("::")[-1]


def place_path(p):
    s = "_%d" % p["l"]
    return apply_proj(s, p["pj"])


def apply_proj(base, pj, idx=None):
    s = base
    absorb = False
    for e in pj:
        if e == "*":
            continue
        if isinstance(e, str):
            continue
        if absorb and e[0] == "f":
            absorb = False
            continue
        absorb = False
        if e[0] == "d" and e[1] in ("Continue", "Break"):
            m = _TRY_RX.match(s)
            if m:
                s = m.group(1) + ("?" if e[1] == "Continue" else "?!")
                absorb = True
                continue
        if e[0] == "f":
            # selecting a field of a known aggregate origin: project when possible
            m = None
            if s.startswith("closure:") and s.endswith("]"):
                m = _closure_cap(s, e[1])
            elif s.endswith("}") and "{" in s:
                m = _agg_field(s, e[2])
            if m is not None:
                s = m
            else:
                s = s + "." + e[2]
        elif e[0] == "d":
            s = s + "@" + e[1]
        elif e[0] == "i":
            s = s + "[%s]" % (idx(e[1]) if idx else "_")
        elif e[0] == "ci":
            s = s + "[%s%s]" % ("-" if e[3] == "true" else "", e[1])
        elif e[0] == "sub":
            s = s + "[%s..%s]" % (e[1], e[2])
    return s



def place_matches(rx, o):
    """A VariantIn literal names a place (the value whose variant is tested).  The regex must match the
    tested value ITSELF: the expression starting at the match has to extend to the end of the origin
    string (closing brackets of enclosing wrappers aside).  A match on a prefix of `X@Some.0.value` or
    `X.field` names a different value (a projection of X) and does not count."""
    for m in rx.finditer(o):
        depth = 0
        prev = ""
        n = len(o)
        # brackets opened inside the matched text (closers of brackets opened before the match are ignored)
        for i in range(m.start(), m.end()):
            ch = o[i]
            if ch in "({[<":
                depth += 1
            elif ch in ")}]" or (ch == ">" and prev != "-"):
                depth = max(0, depth - 1)
            prev = ch
        i = m.end()
        while depth > 0 and i < n:
            ch = o[i]
            if ch in "({[<":
                depth += 1
            elif ch in ")}]" or (ch == ">" and prev != "-"):
                depth -= 1
            prev = ch
            i += 1
        p = i
        rest = o[p:]
        if re.fullmatch(r"[)\]}]*", rest):
            return True
    return False


def _split_top(inner):
    """Split at top-level commas; (), {}, [] and the angle brackets of type paths nest
    (`->` of fn types is not a bracket)."""
    depth = 0
    parts = []
    cur = ""
    prev = ""
    for ch in inner:
        if ch in "({[<":
            depth += 1
        elif ch in ")}]" or (ch == ">" and prev != "-"):
            depth -= 1
        if ch == "," and depth == 0:
            parts.append(cur.strip())
            cur = ""
        else:
            cur += ch
        prev = ch
    if cur.strip():
        parts.append(cur.strip())
    return parts


def _closure_cap(s, idx):
    """s = closure:PATH[cap0, cap1, ...] -> capture idx."""
    # find the '[' that matches the final ']'
    depth = 0
    for i in range(len(s) - 1, -1, -1):
        ch = s[i]
        if ch in ")}]":
            depth += 1
        elif ch in "({[":
            depth -= 1
            if depth == 0:
                parts = _split_top(s[i + 1 : -1])
                if 0 <= idx < len(parts):
                    return parts[idx]
                return None
    return None


_TRY_RX = re.compile(r"^<[^<>]* as std::ops::Try>::branch\((.*)\)$")


def _agg_field(s, fname):
    """If s is `Ty::Var{a: X, b: Y}` return the origin of field fname (top-level split)."""
    i = s.find("{")
    if i < 0 or not s.endswith("}"):
        return None
    head = s[:i]
    if "(" in head or " " in head or "phi" in head:
        return None
    inner = s[i + 1 : -1]
    parts = _split_top(inner)
    for p in parts:
        p = p.strip()
        if p.startswith(fname + ": "):
            return p[len(fname) + 2 :]
    return None


class Facts:
    def __init__(self, path):
        with open(path) as f:
            d = json.load(f)
        self.raw = d
        self.crate = d["crate"]
        self.features = d["features"]
        self.adts = d["adts"]
        self.impls = d["impls"]
        self.consts = d["consts"]
        self.bodies_raw = d["bodies"]
        self._bodies = {}
        self._callers = None
        self._must = None

    def body(self, path) -> Body | None:
        if path not in self._bodies:
            info = self.bodies_raw.get(path)
            if info is None:
                return None
            b = Body(self, path, info)
            b.refine_dead_blocks()
            self._bodies[path] = b
        return self._bodies[path]

    def find(self, rx):
        r = re.compile(rx)
        return [p for p in self.bodies_raw if r.search(p)]

    def one(self, rx) -> Body | None:
        """The unique non-closure body whose path matches rx ($-anchored by caller)."""
        c = [p for p in self.find(rx) if "{closure" not in p]
        if len(c) == 1:
            return self.body(c[0])
        return None

    def all_bodies(self):
        for p in self.bodies_raw:
            yield self.body(p)

    def const(self, path):
        c = self.consts.get(path)
        if c is None or "v" not in c:
            return None
        return int(c["v"])

    # -- impl tables --------------------------------------------------------------------------
    def impls_of(self, trait_rx, self_rx=None):
        t = re.compile(trait_rx)
        s = re.compile(self_rx) if self_rx else None
        return [i for i in self.impls if i["trait"] and t.search(i["trait"]) and (s is None or s.search(i["self"]))]

    def drop_impl(self, adt_rx):
        for i in self.impls_of(r"^std::ops::Drop$", adt_rx):
            for name, path, kind in i["items"]:
                if name == "drop":
                    return self.body(path)
        return None

    def is_derived(self, trait_rx, self_rx):
        xs = self.impls_of(trait_rx, self_rx)
        return bool(xs) and all(i["derived"] for i in xs)

    def closures_of(self, body: Body):
        """closure bodies created (Aggregate closure) in `body`, with their creation Site."""
        out = []
        for s in body.aggregates(r".*"):
            rv = s.node()["rv"]
            if rv.get("ak") == "closure":
                cb = self.body(rv["def"])
                if cb is not None:
                    out.append((s, cb))
        return out

    # -- call graph ---------------------------------------------------------------------------
    def callees_of(self, body: Body, view="normal"):
        out = []
        for s in body.calls(None, view):
            f = s.node()["fn"]
            out.append((s, f.get("resolved") or f.get("def")))
        return out

    def callers(self):
        if self._callers is None:
            c = defaultdict(list)
            for b in self.all_bodies():
                for s, name in self.callees_of(b, "full"):
                    if name:
                        c[name].append(s)
                        f = s.node()["fn"]
                        if f.get("def") and f.get("def") != name:
                            c[f["def"]].append(s)
            self._callers = c
        return self._callers

    def call_sites_of(self, rx):
        r = re.compile(rx)
        out = []
        seen = set()
        for name, sites in self.callers().items():
            if r.search(name):
                for s in sites:
                    if s not in seen:
                        seen.add(s)
                        out.append(s)
        return out

    # -- must-call summaries ------------------------------------------------------------------
    def must_call(self, body: Body, target_rx, depth=4, _stack=()):
        """True if every normal path entry->return of body executes a call matching target_rx
        (directly or through a same-crate callee that must-call it). Diverging paths are ignored."""
        rx = re.compile(target_rx) if isinstance(target_rx, str) else target_rx
        hits = self.must_call_blocks(body, rx, depth, _stack)
        rets = body.return_blocks()
        if not rets:
            return False
        reach = body.reachable(0, "normal", cut_blocks=hits)
        # a return block that itself contains the call cannot exist (call is a terminator)
        return not any(r in reach for r in rets)

    def must_call_blocks(self, body, rx, depth=4, _stack=()):
        hits = set()
        for s, name in self.callees_of(body):
            f = s.node()["fn"]
            names = [n for n in (f.get("def"), f.get("resolved")) if n]
            if any(rx.search(n) for n in names):
                hits.add(s.bb)
                continue
            if depth > 0:
                for n in names:
                    cb = self.body(n)
                    if cb is not None and n not in _stack and cb is not body:
                        if self.must_call(cb, rx, depth - 1, _stack + (body.path,)):
                            hits.add(s.bb)
                            break
        return hits

    # -- divergence ---------------------------------------------------------------------------
    def dead_end_blocks(self, body: Body, depth=3, _stack=()):
        """Blocks whose call terminator never returns: no target, a diverging same-crate callee, or
        a diverging closure handed to a same-crate function that calls it on every path."""
        key = ("dead", body.path)
        cache = getattr(self, "_dead_cache", None)
        if cache is None:
            cache = self._dead_cache = {}
        if key in cache:
            return cache[key]
        out = set()
        for s in body.calls(None):
            t = s.node()
            if t.get("t") is None:
                out.add(s.bb)
                continue
            if depth <= 0:
                continue
            f = t["fn"]
            names = [n for n in (f.get("resolved"), f.get("def")) if n]
            for n in names:
                cb = self.body(n)
                if cb is None or cb.path in _stack or cb is body:
                    continue
                if self.diverges(cb, depth - 1, _stack + (body.path,)):
                    out.add(s.bb)
                    break
                # closure arguments
                for a in t["args"]:
                    o = body.origin_op(a, 0, None, s)
                    m = re.match(r"^closure:([^\[\]]+)\[", o)
                    if m:
                        kb = self.body(m.group(1))
                        if kb is not None and self.diverges(kb, depth - 1, _stack + (body.path,)) and self.must_call(cb, r"^std::ops::(FnOnce::call_once|FnMut::call_mut|Fn::call)$", 2):
                            out.add(s.bb)
        cache[key] = out
        return out

    def diverges(self, body: Body, depth=3, _stack=()):
        dead = self.dead_end_blocks(body, depth, _stack)
        reach = body.reachable(0, "normal", cut_blocks=dead)
        return not any(r in reach and r not in dead for r in body.return_blocks())

    def path_avoiding(self, body: Body, avoid_blocks, targets, view="normal", start=0):
        """A witness path (list of bb) from start to any block in targets that never *leaves* an
        avoided block; None if none exists."""
        avoid = set(avoid_blocks)
        targets = set(targets)
        prev = {start: None}
        stack = [start]
        while stack:
            b = stack.pop()
            if b in targets:
                p = []
                while b is not None:
                    p.append(b)
                    b = prev[b]
                return list(reversed(p))
            if b in avoid:
                continue
            for s, _ in body.succs(b, view):
                if s not in prev:
                    prev[s] = b
                    stack.append(s)
        return None


# ---------------------------------------------------------------------------------------------
# literals and the "only if" engine


class Lit:
    """A fact that a CFG edge can establish.

    kinds:
      cmp   a, b : regexes on operand origins; rel: set of allowed relations among '<','=','>'
      call  fn: regex on callee; args: list of regex|None on arg origins; val: True/False
      var   place: regex on the origin of the place whose discriminant is tested; variants: set
      bool  origin: regex on origin of a tested bool; val
    """

    def __init__(self, kind, **kw):
        self.kind = kind
        self.__dict__.update(kw)
        self.desc = kw.get("desc")

    def __repr__(self):
        if self.desc:
            return self.desc
        d = {k: v for k, v in self.__dict__.items() if k not in ("kind", "desc")}
        return "%s%s" % (self.kind, d)


def Cmp(a, rel, b, desc=None):
    """a REL b where REL in '<', '<=', '>', '>=', '==', '!='."""
    return Lit("cmp", a=re.compile(a), b=re.compile(b), rel=REL_TRUE[rel], desc=desc or "%s %s %s" % (a, rel, b))


def CallIs(fn, val=True, args=None, desc=None):
    return Lit(
        "call",
        fn=re.compile(fn),
        args=[re.compile(a) if a else None for a in (args or [])],
        val=val,
        desc=desc or "%s%s(%s)" % ("" if val else "!", fn, ",".join(a or "_" for a in (args or []))),
    )


def VariantIn(place, variants, desc=None):
    return Lit("var", place=re.compile(place), variants=frozenset(variants), desc=desc or "%s in %s" % (place, sorted(variants)))


def BoolIs(origin, val=True, desc=None):
    return Lit("bool", origin=re.compile(origin), val=val, desc=desc or "%s is %s" % (origin, val))


TRY_MAP = {"Continue": {"Some", "Ok"}, "Break": {"None", "Err"}}


class Clause:
    """A disjunction of literals (an edge establishes the clause if it establishes one of them,
    or if a tested bool's truthy defs are each guarded by the clause)."""

    def __init__(self, lits):
        self.lits = tuple(lits)

    def __repr__(self):
        return " OR ".join(repr(l) for l in self.lits)


def _clause(lit):
    if isinstance(lit, Clause):
        return lit
    if isinstance(lit, (list, tuple)):
        return Clause(lit)
    return Clause([lit])


class OnlyIf:
    """Edge-cut engine for one body (with optional parameter substitution and inline depth)."""

    MAX_DEPTH = 3

    def __init__(self, facts: Facts, body: Body, subst=None, depth=0, stack=()):
        self.facts = facts
        self.body = body
        self.subst = subst
        self.depth = depth
        self.stack = stack
        self._edges = {}
        self._inprog = set()
        self._clauses = {}

    def _norm(self, lit):
        """Canonical Clause object per set of literal identities (so caching by id works)."""
        c = _clause(lit)
        k = tuple(id(l) for l in c.lits)
        if k not in self._clauses:
            self._clauses[k] = c
        return self._clauses[k]

    # ---- value predicates: ("bool", b) / ("eq", v, ty) / ("not", {v}, ty) / ("variants", {names})
    def establishing_edges(self, lit):
        """Set of (bb, succ, label) edges after which the clause is known to hold (least fixpoint:
        an edge may establish it because a tested bool was defined in a block that is itself
        guarded by edges found in an earlier round)."""
        cl = self._norm(lit)
        k = id(cl)
        if k in self._edges and k not in self._inprog:
            return self._edges[k]
        if k in self._inprog:
            return self._edges.get(k, set())
        self._inprog.add(k)
        self._edges[k] = set()
        for _round in range(6):
            out = self._establishing_pass(cl)
            if out == self._edges[k]:
                break
            self._edges[k] = out
        self._inprog.discard(k)
        return self._edges[k]

    def _establishing_pass(self, cl):
        out = set()
        b = self.body
        for bi in b.live_blocks():
            t = b.blocks[bi]["term"]
            if t["k"] == "switch":
                succs = b.succs(bi)
                if len(succs) < 2:
                    continue
                for s, lab in succs:
                    pred = self._edge_pred(t, lab)
                    if pred is None:
                        continue
                    if self.implies_op(t["o"], pred, cl, Site(b, bi, len(b.blocks[bi]["stmts"]))):
                        out.add((bi, s, lab))
            elif t["k"] == "assert":
                if t.get("t") is not None:
                    pred = ("bool", t["expected"] == "true")
                    if self.implies_op(t["cond"], pred, cl, Site(b, bi, len(b.blocks[bi]["stmts"]))):
                        out.add((bi, t["t"], "ret"))
        return out

    def _edge_pred(self, t, lab):
        if lab[1] == "otherwise":
            vals = [int(v) for v, _ in t["targets"]]
            return ("not", frozenset(vals), t["ty"])
        return ("eq", lab[1], t["ty"])

    # does "operand satisfies pred" imply the clause?
    def implies_op(self, op, pred, lit, at: Site = None):
        cl = self._norm(lit)
        if "k" in op:
            k = op["k"]
            c = k.get("v")
            if pred[0] == "variants":
                if "variant" in k:
                    return k["variant"] not in pred[1]
                return False
            if c is None:
                return self._symbolic_const_implies(op, pred, cl, at)
            return not self._const_satisfies(int(c), pred)
        p = op.get("c") or op.get("m")
        if p is None:
            return False
        if p["pj"]:
            return self._implies_place_value(p, pred, cl, at)
        return self.implies_local(p["l"], pred, cl, ())

    def _symbolic_const_implies(self, op, pred, cl, at=None):
        """An unevaluated (generic) constant such as `C::PERSIST`: a BoolIs literal naming it is
        established on the edge that tests it."""
        o = self.body.origin_op(op, 0, self.subst, at)
        pb = self._pred_bool(pred)
        for lit in cl.lits:
            if lit.kind == "bool" and pb is not None and lit.origin.search(o) is not None and pb == lit.val:
                return True
        return False

    def _const_satisfies(self, c, pred):
        if pred[0] == "eq":
            return c == pred[1]
        if pred[0] == "not":
            return c not in pred[1]
        if pred[0] == "bool":
            return bool(c) == pred[1]
        return True

    def _pred_bool(self, pred):
        if pred[0] == "bool":
            return pred[1]
        if pred[0] == "eq":
            return bool(pred[1]) if pred[1] in (0, 1) and pred[2] == "bool" else None
        if pred[0] == "not":
            vs = pred[1]
            if pred[2] != "bool":
                return None
            if vs == frozenset([0]):
                return True
            if vs == frozenset([1]):
                return False
        return None

    def _implies_place_value(self, p, pred, cl, at=None):
        o = self.body.origin_place(p, 0, self.subst, at)
        pb = self._pred_bool(pred)
        for lit in cl.lits:
            if lit.kind == "bool" and pb is not None and lit.origin.search(o) is not None and pb == lit.val:
                return True
        return False

    def implies_local(self, l, pred, lit, stack=()):
        cl = self._norm(lit)
        b = self.body
        if l in stack:
            return False
        ds = b.full_defs(l)
        if not ds:
            o = b.origin_local(l, 0, self.subst)
            pb = self._pred_bool(pred)
            for lt in cl.lits:
                if lt.kind == "bool" and pb is not None and lt.origin.search(o) is not None and pb == lt.val:
                    return True
            if pb is not None and self._origin_string_implies(o, pb, cl):
                return True
            return False
        for site, kind, node in ds:
            if not self._def_implies(site, kind, node, pred, cl, stack + (l,)):
                return False
        return True

    def _def_implies(self, site, kind, node, pred, cl, stack):
        b = self.body
        if kind == "call":
            return self._call_implies(site, node, pred, cl, stack)
        rv = node["rv"]
        k = rv["k"]
        if k == "use":
            o = rv["o"]
            if "k" in o:
                kk = o["k"]
                if pred[0] == "variants":
                    if "variant" in kk and kk["variant"] not in pred[1]:
                        return True
                    return self.guarded_block(site.bb, cl)
                c = kk.get("v")
                if c is None:
                    return self._symbolic_const_implies(o, pred, cl, site) or self.guarded_block(site.bb, cl)
                if not self._const_satisfies(int(c), pred):
                    return True  # this def never yields the tested value
                return self.guarded_block(site.bb, cl)
            p = o.get("c") or o.get("m")
            if p["pj"]:
                if self._implies_place_value(p, pred, cl, site):
                    return True
                return self.guarded_block(site.bb, cl)
            if self.implies_local(p["l"], pred, cl, stack):
                return True
            return self.guarded_block(site.bb, cl)
        if k == "un" and rv["op"] == "Not":
            pb = self._pred_bool(pred)
            if pb is None:
                return self.guarded_block(site.bb, cl)
            return self.implies_op(rv["a"], ("bool", not pb), cl, site) or self.guarded_block(site.bb, cl)
        if k == "bin":
            op = rv["op"]
            pb = self._pred_bool(pred)
            if op in BINOP_CMP and pb is not None:
                oa = b.origin_op(rv["a"], 0, self.subst, site)
                ob = b.origin_op(rv["b"], 0, self.subst, site)
                if self._cmp_establishes(BINOP_CMP[op], pb, oa, ob, cl):
                    return True
            if op == "BitAnd" and pb is True:
                if self.implies_op(rv["a"], ("bool", True), cl, site) or self.implies_op(rv["b"], ("bool", True), cl, site):
                    return True
            if op == "BitOr" and pb is False:
                if self.implies_op(rv["a"], ("bool", False), cl, site) or self.implies_op(rv["b"], ("bool", False), cl, site):
                    return True
            return self.guarded_block(site.bb, cl)
        if k == "discr":
            return self._discr_implies(rv, pred, cl, site) or self.guarded_block(site.bb, cl)
        if k == "agg" and rv.get("ak") == "adt":
            if pred[0] == "variants" and rv["variant"] not in pred[1]:
                return True
            return self.guarded_block(site.bb, cl)
        if k == "cast":
            return self.implies_op(rv["o"], pred, cl, site) or self.guarded_block(site.bb, cl)
        return self.guarded_block(site.bb, cl)

    def _discr_implies(self, rv, pred, cl, site=None):
        b = self.body
        p = rv["p"]
        adt = rv.get("adt")
        o = b.origin_place(p, 0, self.subst, site)
        names = None
        if rv.get("variants"):
            names = {int(v): n for v, n in rv["variants"]}
        if names is None:
            names = self._variant_names(adt)
        if names is None:
            return False
        allowed = self._allowed_variants(names, pred)
        if allowed is None:
            return False
        m = _TRY_RX.match(o)
        for lit in cl.lits:
            if lit.kind != "var":
                continue
            if m:
                inner = m.group(1)
                mapped = set()
                for a in allowed:
                    mapped |= TRY_MAP.get(a, {a})
                extra = set()
                if "Some" in lit.variants:
                    extra.add("Ok")
                if "None" in lit.variants:
                    extra.add("Err")
                if place_matches(lit.place, inner) and mapped <= (lit.variants | extra):
                    return True
            if place_matches(lit.place, o) and allowed <= lit.variants:
                return True
        return False

    def _variant_names(self, adt):
        if adt is None:
            return None
        a = self.facts.adts.get(adt)
        if a is not None:
            return {int(v["discr"]): v["name"] for v in a["variants"] if v["discr"] is not None}
        if adt == "std::option::Option":
            return {0: "None", 1: "Some"}
        if adt == "std::result::Result":
            return {0: "Ok", 1: "Err"}
        if adt == "std::ops::ControlFlow":
            return {0: "Continue", 1: "Break"}
        return None

    def _allowed_variants(self, names, pred):
        if pred[0] == "eq":
            n = names.get(pred[1])
            return {n} if n else None
        if pred[0] == "not":
            return {n for v, n in names.items() if v not in pred[1]}
        return None

    _CMP_ORIGIN = re.compile(r"^<[^<>]*(?:<[^<>]*>)?[^<>]* as std::cmp::Partial(?:Ord|Eq)>::(lt|le|gt|ge|eq|ne)\((.*)\)$")
    _CMP_NAMES = {"lt": "<", "le": "<=", "gt": ">", "ge": ">=", "eq": "==", "ne": "!="}

    def _origin_string_implies(self, o, truth, cl, depth=0):
        """A parameter substituted by the caller's argument origin (helper inlining): understand
        `<T as PartialOrd>::gt(A, B)`, `(A Gt B)`, `Not(X)` and call literals in string form."""
        if depth > 4:
            return False
        m = self._CMP_ORIGIN.match(o)
        if m:
            parts = _split_top(m.group(2))
            if len(parts) == 2 and self._cmp_establishes(self._CMP_NAMES[m.group(1)], truth, parts[0], parts[1], cl):
                return True
        if o.startswith("(") and o.endswith(")"):
            inner = o[1:-1]
            depth_ = 0
            for i, ch in enumerate(inner):
                if ch in "({[":
                    depth_ += 1
                elif ch in ")}]":
                    depth_ -= 1
                elif ch == " " and depth_ == 0:
                    rest = inner[i + 1:]
                    for opn, opstr in BINOP_CMP.items():
                        if rest.startswith(opn + " "):
                            if self._cmp_establishes(opstr, truth, inner[:i], rest[len(opn) + 1:], cl):
                                return True
                    break
        if o.startswith("Not(") and o.endswith(")"):
            return self._origin_string_implies(o[4:-1], not truth, cl, depth + 1)
        m = re.match(r"^([^()\[\]{} ]+(?:<[^()]*>)?[^()\[\]{} ]*)\((.*)\)$", o)
        if m:
            args = _split_top(m.group(2))
            for lit in cl.lits:
                if lit.kind == "call" and lit.fn.search(m.group(1)) and truth == lit.val:
                    if all(rx is None or (i < len(args) and rx.search(args[i])) for i, rx in enumerate(lit.args)):
                        return True
        return False

    def _cmp_establishes(self, opstr, truth, oa, ob, cl):
        rel = REL_TRUE[opstr] if truth else ALLREL - REL_TRUE[opstr]
        for lit in cl.lits:
            if lit.kind != "cmp":
                continue
            if lit.a.search(oa) and lit.b.search(ob) and rel <= lit.rel:
                return True
            if lit.a.search(ob) and lit.b.search(oa) and flip_rel(rel) <= lit.rel:
                return True
        return False

    def _call_implies(self, site, node, pred, cl, stack):
        b = self.body
        f = node["fn"]
        name = f.get("def")
        if name is None:
            return self.guarded_block(site.bb, cl)
        resolved = f.get("resolved") or name
        args = [b.origin_op(a, 0, self.subst, site) for a in node["args"]]
        pb = self._pred_bool(pred)
        if name in CMP_METHODS and pb is not None and len(args) == 2:
            if self._cmp_establishes(CMP_METHODS[name], pb, args[0], args[1], cl):
                return True
        for lit in cl.lits:
            if lit.kind == "call" and pb is not None and (lit.fn.search(name) or lit.fn.search(resolved)):
                ok = True
                for i, rx in enumerate(lit.args):
                    if rx is not None and (i >= len(args) or not rx.search(args[i])):
                        ok = False
                if ok and pb == lit.val:
                    return True
            if lit.kind == "var" and pb is not None and args:
                nm = name.split("::")[-1]
                tbl = {"is_some": ({"Some"}, {"None"}), "is_none": ({"None"}, {"Some"}), "is_ok": ({"Ok"}, {"Err"}), "is_err": ({"Err"}, {"Ok"})}
                if nm in tbl and name.startswith(("std::option::Option", "std::result::Result")):
                    vs = tbl[nm][0] if pb else tbl[nm][1]
                    if place_matches(lit.place, args[0]) and vs <= lit.variants:
                        return True
        if pred[0] == "variants" and name == "std::ops::FromResidual::from_residual":
            st = f.get("self_ty", "")
            v = "None" if st.startswith("std::option::Option") else ("Err" if st.startswith("std::result::Result") else None)
            if v is not None and v not in pred[1]:
                return True
        if name in TRANSPARENT_CALLS and node["args"]:
            if self.implies_op(node["args"][0], pred, cl, site):
                return True
        cb = self.facts.body(resolved) or self.facts.body(name)
        if cb is not None and self.depth < self.MAX_DEPTH and cb.path not in self.stack and cb is not b:
            sub = {i + 1: args[i] for i in range(min(len(args), cb.argc))}
            inner = OnlyIf(self.facts, cb, sub, self.depth + 1, self.stack + (b.path,))
            if inner.implies_local(0, pred, Clause(cl.lits), ()):
                return True
        return self.guarded_block(site.bb, cl)

    # ---- guardedness
    def guarded_block(self, bb, lit):
        """Block bb is reachable only after an edge establishing the clause."""
        edges = self.establishing_edges(lit)
        if not edges:
            return False
        reach = self.body.reachable(0, "normal", cut_edges=edges)
        return bb not in reach

    def primary_edges(self, lit):
        """Establishing edges whose source block is itself reachable without the literal being
        known (the tests that actually decide it, not tests that merely sit behind it)."""
        edges = self.establishing_edges(lit)
        reach = self.body.reachable(0, "normal", cut_edges=edges)
        return {e for e in edges if e[0] in reach}

    def guarded(self, site: Site, lit):
        return self.guarded_block(site.bb, lit)

    def guarded_clause(self, site: Site, lits):
        return self.guarded_block(site.bb, Clause(lits))

    def witness_path(self, site: Site, lits):
        edges = self.establishing_edges(Clause(lits) if isinstance(lits, (list, tuple)) else lits)
        b = self.body
        prev = {0: None}
        stack = [0]
        while stack:
            x = stack.pop()
            if x == site.bb:
                p = []
                while x is not None:
                    p.append(x)
                    x = prev[x]
                return list(reversed(p))
            for s, lab in b.succs(x):
                if (x, s, lab) in edges or (x, s) in edges:
                    continue
                if s not in prev:
                    prev[s] = x
                    stack.append(s)
        return None

    def returns_only_if(self, pred, lit):
        """Return value satisfies pred (True/False/variant set) only if the clause holds."""
        if isinstance(pred, bool):
            p = ("bool", pred)
        else:
            p = ("variants", frozenset(pred))
        return self.implies_local(0, p, lit, ())
