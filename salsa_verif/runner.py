"""Builds MIR facts from /repo's current working tree (cached by source hash)."""
from __future__ import annotations

import fcntl
import glob
import hashlib
import os
import shutil
import subprocess
import sys
import time

ROOT = os.path.dirname(os.path.dirname(os.path.abspath(__file__)))
REPO = os.environ.get("VERIF_REPO", "/repo")
CACHE = os.path.join(ROOT, ".cache")
DRIVER_DIR = os.path.join(ROOT, "tools", "mirfacts")
DRIVER = os.path.join(DRIVER_DIR, "target", "release", "mirfacts")

CONFIGS = {
    "default": [],
    "persistence": ["--features", "persistence"],
    "shuttle": ["--features", "shuttle"],
    "nodefault": ["--no-default-features", "--features", "macros"],
}


def log(*a):
    print("[runner]", *a, file=sys.stderr, flush=True)


def env_base():
    e = dict(os.environ)
    e["CARGO_NET_OFFLINE"] = "true"
    e.pop("RUSTC_WRAPPER", None)
    e.pop("RUSTC_WORKSPACE_WRAPPER", None)
    e.pop("RUSTFLAGS", None)
    return e


def sysroot():
    return subprocess.check_output(["rustc", "+nightly", "--print", "sysroot"], env=env_base(), text=True).strip()


def build_driver():
    src = [os.path.join(DRIVER_DIR, "src", "main.rs"), os.path.join(DRIVER_DIR, "Cargo.toml")]
    if os.path.exists(DRIVER) and all(os.path.getmtime(DRIVER) >= os.path.getmtime(s) for s in src):
        return
    log("building mirfacts driver")
    r = subprocess.run(
        ["cargo", "+nightly", "build", "--release", "--offline"], cwd=DRIVER_DIR, env=env_base(), capture_output=True, text=True
    )
    if r.returncode != 0 or not os.path.exists(DRIVER):
        sys.stderr.write(r.stdout + r.stderr)
        raise RuntimeError("cannot build mirfacts driver")


def source_hash(extra=()):
    h = hashlib.sha256()
    files = []
    for pat in ("Cargo.toml", "Cargo.lock", "src/**/*", "components/**/*"):
        files += glob.glob(os.path.join(REPO, pat), recursive=True)
    for f in sorted(set(files)):
        if os.path.isfile(f) and "/target/" not in f:
            h.update(f.encode())
            with open(f, "rb") as fh:
                h.update(fh.read())
    with open(DRIVER, "rb") as fh:
        h.update(fh.read())
    for e in extra:
        if os.path.isfile(e):
            with open(e, "rb") as fh:
                h.update(fh.read())
        else:
            h.update(str(e).encode())
    return h.hexdigest()[:24]


class Lock:
    def __init__(self, name):
        os.makedirs(CACHE, exist_ok=True)
        self.path = os.path.join(CACHE, name + ".lock")

    def __enter__(self):
        self.f = open(self.path, "w")
        fcntl.flock(self.f, fcntl.LOCK_EX)
        return self

    def __exit__(self, *a):
        fcntl.flock(self.f, fcntl.LOCK_UN)
        self.f.close()


def _drop_fingerprints(target, names):
    for n in names:
        for d in glob.glob(os.path.join(target, "debug", ".fingerprint", n + "-*")):
            shutil.rmtree(d, ignore_errors=True)


def facts_for(config):
    """Path of salsa.json for the given feature configuration, built on a cache miss."""
    with Lock("build"):
        build_driver()
    h = source_hash([config])
    outdir = os.path.join(CACHE, "facts", h + "-" + config)
    out = os.path.join(outdir, "salsa.json")
    if os.path.exists(out):
        return out
    with Lock("facts-" + config):
        if os.path.exists(out):
            return out
        os.makedirs(outdir, exist_ok=True)
        target = os.path.join(CACHE, "target", config)
        _drop_fingerprints(target, ["salsa"])
        e = env_base()
        e["LD_LIBRARY_PATH"] = sysroot() + "/lib" + (":" + e["LD_LIBRARY_PATH"] if e.get("LD_LIBRARY_PATH") else "")
        e["RUSTFLAGS"] = "-Zmir-opt-level=0 -Awarnings"
        e["RUSTC_WORKSPACE_WRAPPER"] = DRIVER
        e["MIRFACTS_CRATES"] = "salsa"
        e["MIRFACTS_OUT"] = outdir
        e["CARGO_TARGET_DIR"] = target
        t0 = time.time()
        cmd = ["cargo", "+nightly", "check", "--offline", "-p", "salsa", "--lib"] + CONFIGS[config]
        r = subprocess.run(cmd, cwd=REPO, env=e, capture_output=True, text=True)
        log("facts[%s] built in %.1fs (exit %d)" % (config, time.time() - t0, r.returncode))
        if r.returncode != 0 or not os.path.exists(out):
            sys.stderr.write(r.stderr[-6000:])
            shutil.rmtree(outdir, ignore_errors=True)
            raise RuntimeError("facts build failed for config %s" % config)
        _gc_facts(keep=outdir)
        return out


def _gc_facts(keep):
    """Keep the cache small: retain the 6 most recent fact directories."""
    d = os.path.join(CACHE, "facts")
    ents = sorted(glob.glob(os.path.join(d, "*")), key=os.path.getmtime, reverse=True)
    for e in ents[8:]:
        if e != keep:
            shutil.rmtree(e, ignore_errors=True)


SPECIMEN = os.path.join(ROOT, "specimen")


def specimen_prepare():
    """Copy /repo's Cargo.lock next to the specimen manifest (offline resolution)."""
    src = os.path.join(REPO, "Cargo.lock")
    dst = os.path.join(SPECIMEN, "Cargo.lock")
    if not os.path.exists(dst) or open(src, "rb").read() != open(dst, "rb").read():
        # keep specimen's own lock if it already resolves; otherwise seed from the repo's
        if not os.path.exists(dst):
            shutil.copy(src, dst)


def specimen_facts():
    """Facts of the specimen crate (macro-expanded user layer) built against /repo's tree."""
    with Lock("build"):
        build_driver()
    files = sorted(glob.glob(os.path.join(SPECIMEN, "src", "**", "*.rs"), recursive=True)) + [os.path.join(SPECIMEN, "Cargo.toml")]
    h = source_hash(["specimen"] + files)
    outdir = os.path.join(CACHE, "facts", h + "-specimen")
    out = os.path.join(outdir, "specimen.json")
    if os.path.exists(out):
        return out
    with Lock("facts-specimen"):
        if os.path.exists(out):
            return out
        os.makedirs(outdir, exist_ok=True)
        specimen_prepare()
        target = os.path.join(CACHE, "target", "specimen")
        _drop_fingerprints(target, ["specimen"])
        e = env_base()
        e["LD_LIBRARY_PATH"] = sysroot() + "/lib"
        e["RUSTFLAGS"] = "-Zmir-opt-level=0 -Awarnings"
        e["RUSTC_WORKSPACE_WRAPPER"] = DRIVER
        e["MIRFACTS_CRATES"] = "specimen"
        e["MIRFACTS_OUT"] = outdir
        e["CARGO_TARGET_DIR"] = target
        t0 = time.time()
        r = subprocess.run(["cargo", "+nightly", "check", "--offline", "--lib"], cwd=SPECIMEN, env=e, capture_output=True, text=True)
        log("facts[specimen] built in %.1fs (exit %d)" % (time.time() - t0, r.returncode))
        if r.returncode != 0 or not os.path.exists(out):
            sys.stderr.write(r.stderr[-6000:])
            shutil.rmtree(outdir, ignore_errors=True)
            raise RuntimeError("specimen facts build failed")
        return out


def witness_results():
    """Run the compile_fail witnesses (doc-tests of the specimen crate) against /repo's tree.
    Returns dict test-name -> 'ok' | 'FAILED' (cached by source hash)."""
    import json
    import re

    with Lock("build"):
        build_driver()
    files = sorted(glob.glob(os.path.join(SPECIMEN, "src", "**", "*.rs"), recursive=True)) + [os.path.join(SPECIMEN, "Cargo.toml")]
    h = source_hash(["witness"] + files)
    out = os.path.join(CACHE, "facts", h + "-witness", "witness.json")
    if os.path.exists(out):
        return json.load(open(out))
    with Lock("witness"):
        if os.path.exists(out):
            return json.load(open(out))
        os.makedirs(os.path.dirname(out), exist_ok=True)
        specimen_prepare()
        e = env_base()
        e["CARGO_TARGET_DIR"] = os.path.join(CACHE, "target", "witness")
        e["RUSTFLAGS"] = "-Awarnings"
        e["RUSTDOCFLAGS"] = "-Awarnings"
        t0 = time.time()
        r = subprocess.run(
            ["cargo", "+nightly", "test", "--doc", "--offline", "--", "--test-threads", "16"],
            cwd=SPECIMEN,
            env=e,
            capture_output=True,
            text=True,
        )
        log("witness doc-tests ran in %.1fs (exit %d)" % (time.time() - t0, r.returncode))
        res = {}
        for m in re.finditer(r"^test (\S+) - (\S+) \(line \d+\)( - compile fail)? \.\.\. (ok|FAILED)", r.stdout, re.M):
            res[m.group(2)] = {"result": m.group(4), "compile_fail": bool(m.group(3)), "file": m.group(1)}
        if not res:
            sys.stderr.write(r.stdout[-3000:] + r.stderr[-6000:])
            shutil.rmtree(os.path.dirname(out), ignore_errors=True)
            raise RuntimeError("witness doc-tests produced no results")
        res["__raw_tail__"] = r.stdout[-4000:]
        json.dump(res, open(out, "w"))
        return res
