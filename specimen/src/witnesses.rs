//! Type-level witnesses (compile_fail doc-tests, each with a compiling twin that differs only in
//! the offending line). Run with `cargo +nightly test --doc` so that the error codes are checked.
//! Each item is one witness; `<name>_fail` must be rejected with the stated error code and
//! `<name>_twin` must compile - a witness that fails for an unrelated reason is thereby detected.

/// C20/C23: a reference returned by a tracked function cannot be held across a write.
/// ```compile_fail,E0502
/// use salsa::Setter;
/// let mut db = salsa::DatabaseImpl::new();
/// let i = specimen::InTwo::new(&db, 1, String::from("x"));
/// let r: &String = specimen::f_ref(&db, i);
/// i.set_a(&mut db).to(2);
/// println!("{r}");
/// ```
pub fn w1_ref_across_set_fail() {}

/// ```
/// use salsa::Setter;
/// let mut db = salsa::DatabaseImpl::new();
/// let i = specimen::InTwo::new(&db, 1, String::from("x"));
/// let r: &String = specimen::f_ref(&db, i);
/// println!("{r}");
/// i.set_a(&mut db).to(2);
/// ```
pub fn w1_ref_across_set_twin() {}

/// C20: an input setter needs `&mut db`.
/// ```compile_fail,E0308
/// use salsa::Setter;
/// let mut db = salsa::DatabaseImpl::new();
/// let i = specimen::InOne::new(&db, 1);
/// i.set_a(&db).to(2);
/// ```
pub fn w2_setter_needs_mut_fail() {}

/// ```
/// use salsa::Setter;
/// let mut db = salsa::DatabaseImpl::new();
/// let i = specimen::InOne::new(&db, 1);
/// i.set_a(&mut db).to(2);
/// ```
pub fn w2_setter_needs_mut_twin() {}

/// C16/C20/C24: a database handle cannot be shared between threads by reference (it is `!Sync`);
/// every thread needs its own clone.
/// ```compile_fail,E0277
/// let db = salsa::DatabaseImpl::new();
/// std::thread::scope(|s| {
///     s.spawn(|| { let _ = &db; });
/// });
/// ```
pub fn w3_handle_not_sync_fail() {}

/// ```
/// let db = salsa::DatabaseImpl::new();
/// std::thread::scope(|s| {
///     let db2 = db.clone();
///     s.spawn(move || { let _ = &db2; });
/// });
/// ```
pub fn w3_handle_not_sync_twin() {}

/// C23: a field reference cannot outlive the database borrow it was read through.
/// ```compile_fail,E0597
/// let r: &String = {
///     let db = salsa::DatabaseImpl::new();
///     let i = specimen::InTwo::new(&db, 1, String::from("x"));
///     i.b(&db)
/// };
/// println!("{r}");
/// ```
pub fn w6_field_ref_outlives_db_fail() {}

/// ```
/// let db = salsa::DatabaseImpl::new();
/// let r: &String = {
///     let i = specimen::InTwo::new(&db, 1, String::from("x"));
///     i.b(&db)
/// };
/// println!("{r}");
/// ```
pub fn w6_field_ref_outlives_db_twin() {}

/// C02/C20: a synthetic write needs `&mut db`.
/// ```compile_fail,E0596
/// use salsa::Database;
/// let db = salsa::DatabaseImpl::new();
/// db.synthetic_write(salsa::Durability::LOW);
/// ```
pub fn w7_synthetic_write_needs_mut_fail() {}

/// ```
/// use salsa::Database;
/// let mut db = salsa::DatabaseImpl::new();
/// db.synthetic_write(salsa::Durability::LOW);
/// ```
pub fn w7_synthetic_write_needs_mut_twin() {}

/// C24: the handle-local state makes a database handle `!Sync` (one writer per page).
/// ```compile_fail,E0277
/// fn assert_sync<T: Sync>() {}
/// assert_sync::<salsa::DatabaseImpl>();
/// ```
pub fn w8_database_not_sync_fail() {}

/// ```
/// fn assert_send<T: Send>() {}
/// assert_send::<salsa::DatabaseImpl>();
/// ```
pub fn w8_database_not_sync_twin() {}

/// C20/C23: a tracked struct handle carries `'db` and cannot be used after a write.
/// ```compile_fail,E0502
/// use salsa::Setter;
/// let mut db = salsa::DatabaseImpl::new();
/// let i = specimen::InTwo::new(&db, 1, String::from("x"));
/// let t = specimen::f_make(&db, i);
/// i.set_a(&mut db).to(2);
/// let _ = t.id1(&db);
/// ```
pub fn w9_tracked_handle_across_write_fail() {}

/// ```
/// use salsa::Setter;
/// let mut db = salsa::DatabaseImpl::new();
/// let i = specimen::InTwo::new(&db, 1, String::from("x"));
/// let t = specimen::f_make(&db, i);
/// let _ = t.id1(&db);
/// i.set_a(&mut db).to(2);
/// ```
pub fn w9_tracked_handle_across_write_twin() {}
