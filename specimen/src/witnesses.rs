//! Type-level witnesses (compile_fail doc-tests, each with a compiling twin that differs only in
//! the offending line). Run with `cargo +nightly test --doc` so that the error codes are checked.
