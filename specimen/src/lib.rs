//! Specimen crate: one of everything the salsa macros generate, so that the verification
//! driver can analyse the *expanded* user layer (setters, field getters, update_fields,
//! Configuration constants) and so that the type-level witnesses have a crate to live in.
#![allow(dead_code, clippy::all)]

use salsa::Database;

pub mod witnesses;

#[salsa::input]
pub struct InOne {
    pub a: u32,
}

#[salsa::input]
pub struct InTwo {
    pub a: u32,
    pub b: String,
}

#[salsa::input(singleton)]
pub struct InSingle {
    pub a: u32,
}

/// two identity fields + two tracked fields
#[salsa::tracked]
pub struct TsMixed<'db> {
    pub id1: u32,
    pub id2: u32,
    #[tracked]
    pub t1: u32,
    #[tracked]
    pub t2: String,
}

#[salsa::tracked]
pub struct TsNoEq<'db> {
    pub id1: u32,
    #[tracked]
    #[no_eq]
    pub t1: u32,
}

#[salsa::interned]
pub struct IntDefault<'db> {
    pub text: String,
}

#[salsa::interned(revisions = 1)]
pub struct IntOne<'db> {
    pub text: String,
}

#[salsa::interned(revisions = usize::MAX)]
pub struct IntImmortal<'db> {
    pub text: String,
}

#[salsa::tracked]
pub fn f_plain(db: &dyn Database, i: InOne) -> u32 {
    i.a(db) + 1
}

#[salsa::tracked]
pub fn f_two_args<'db>(db: &'db dyn Database, i: InOne, j: IntDefault<'db>) -> u32 {
    i.a(db) + j.text(db).len() as u32
}

#[salsa::tracked(no_eq)]
pub fn f_no_eq(db: &dyn Database, i: InOne) -> u32 {
    *i.a(db)
}

#[salsa::tracked(lru = 4)]
pub fn f_lru(db: &dyn Database, i: InOne) -> u32 {
    *i.a(db)
}

/// C05: `set_lru_capacity` is generated with a `&mut` database parameter (checked on its signature).
pub fn set_cap(db: &mut salsa::DatabaseImpl) {
    f_lru::set_lru_capacity(db, 8);
}

#[salsa::tracked(specify)]
pub fn f_specify<'db>(db: &'db dyn Database, t: TsMixed<'db>) -> u32 {
    *t.t1(db)
}

#[salsa::tracked]
pub fn f_make<'db>(db: &'db dyn Database, i: InTwo) -> TsMixed<'db> {
    let t = TsMixed::new(db, *i.a(db), 7, *i.a(db) * 2, i.b(db).clone());
    f_specify::specify(db, t, 42);
    t
}

#[salsa::tracked(cycle_fn = cyc_recover, cycle_initial = cyc_initial)]
pub fn f_fixpoint(db: &dyn Database, i: InOne) -> u32 {
    let v = f_fixpoint(db, i);
    (v + i.a(db)).min(10)
}

fn cyc_initial(_db: &dyn Database, _id: salsa::Id, _i: InOne) -> u32 {
    0
}

fn cyc_recover(_db: &dyn Database, _cycle: &salsa::Cycle, _last: &u32, value: u32, _i: InOne) -> u32 {
    value
}

#[salsa::tracked(cycle_initial = cyc_initial)]
pub fn f_fixpoint_default(db: &dyn Database, i: InOne) -> u32 {
    let v = f_fixpoint_default(db, i);
    (v + i.a(db)).min(10)
}

#[salsa::tracked(cycle_result = cyc_result)]
pub fn f_fallback(db: &dyn Database, i: InOne) -> u32 {
    f_fallback(db, i) + 1
}

fn cyc_result(_db: &dyn Database, _id: salsa::Id, _i: InOne) -> u32 {
    99
}

#[salsa::accumulator]
pub struct Log(pub String);

#[salsa::tracked]
pub fn f_accumulate(db: &dyn Database, i: InOne) -> u32 {
    use salsa::Accumulator;
    Log(format!("{}", i.a(db))).accumulate(db);
    *i.a(db)
}

#[salsa::tracked(returns(ref))]
pub fn f_ref(db: &dyn Database, i: InTwo) -> String {
    i.b(db).clone()
}
