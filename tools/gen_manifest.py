#!/usr/bin/env python3
"""Regenerates /verif/MANIFEST.json from the table below + the obligation registry."""
import json
import os
import sys

ROOT = os.path.dirname(os.path.dirname(os.path.abspath(__file__)))
sys.path.insert(0, ROOT)
sys.dont_write_bytecode = True
from salsa_verif import framework, obligations  # noqa

# property -> (technique, level note)
CLAIMED = {
    "C01": ("MIR dataflow over rustc's type-checked MIR: must-record-read (call-graph must-call), reuse-decision refinement by edge-cut reachability over control dependence (soundness direction), value-origin flow",
            "algorithmic correctness of red-green and user determinism are not decided; only the listed structural necessary conditions"),
    "C02": ("const-evaluated lattice algebra + value-origin flow / dominance order / guard reachability on the durability bookkeeping (MIR)",
            "behaviour over concrete write histories is not decided"),
    "C03": ("decision refinement in the precision direction (every 'changed'/'execute' exit is control-dependent on one of the listed causes), who-may-call census of execute",
            "execution counts over histories are not decided"),
}

CLAIMED.update({
    "C04": ("value-origin flow + decision tables for the untracked origin (MIR)", "per-revision execution counts are not decided"),
    "C05": ("loop-exit condition / callee contracts / store census in the eviction closure / must-call on revision reset (MIR)", "cache contents for concrete histories are not decided"),
    "C06": ("order/flow on id seeding, identity construction, active/stale partition, must-delete-stale (MIR)", "id equality for concrete programs is not decided"),
    "C07": ("generation-bump flow, must-clear-memos-before-reuse order, lock-word decision refinement, identity-layout tables (MIR + impl tables)", "absence of aliasing in concrete histories is not decided"),
    "C08": ("lock-set discipline over unsynchronised cells (Engler-style who-accesses-under-which-lock), single-critical-section order, shard/hash flow (MIR)", "handle equality for concrete inputs and schedules is not decided"),
    "C09": ("decision refinement in the direction reclaim => allowed, staleness comparison strictness, queue-shift flow, const table (MIR)", "revision-timeline arithmetic for concrete gaps is not decided"),
})

CLAIMED.update({
    "C14": ("cycle-check dominance of every wait (edge-cut guard analysis), interprocedural divergence of the Panic arm, Claimed/Running/Cycle dispatch table, guard types (MIR)", "behaviour of later histories is not decided"),
    "C16": ("lock-class acquire-while-holding graph over the crate call graph (acyclicity, no park under a sync/shard lock), plus the claim/wake-up orderings of C17/C19 (MIR)", "termination and values under concrete schedules are not decided"),
    "C17": ("claim-before-load dominance, who-constructs-ClaimGuard census with preconditions, insert-before-release order (MIR)", "execution counts under concrete schedules are not decided"),
    "C18": ("transfer/release decision tables, sibling agreement of try_/peek_claim_transferred, single-critical-section order for transfer (MIR)", "termination/values under interleavings and forest acyclicity are not decided"),
    "C19": ("wake-up ordering (add_edge < release sync guard < wait; remove edge < store result < notify), who-notifies census, release-on-all-exits (MIR)", "reachable-state invariants of the protocol are not decided (model checking)"),
    "C22": ("guard-type analysis (destructor must-release, forget-after-release) + unwind-window effect analysis: user-code effect closed over the call graph, every unwind edge inside a fragile window must reach a repair guard (MIR with unwind edges)", "post-panic results of concrete histories are not decided; user Drop impls are not modelled as user code; known findings F2/F2b are listed, not suppressed wholesale"),
})

CLAIMED.update({
    "C10": ("decision refinement on specify (ownership, keep-computed, twice-panics), value-origin flow of the inserted memo, creator re-validation table (MIR)", "path-independence of values for concrete request orders is not decided"),
    "C11": ("traversal-order flow (LIFO + reversed inputs, visited set), prune-only-if-empty guard analysis, accumulated-flag propagation flow (MIR)", "value sequences for concrete programs are not decided"),
    "C12": ("convergence/finalisation conjunct analysis (edge-cut guards on verified_final := true), provisional-reuse loop conditions, iteration seeding flow (MIR)", "least-fixpoint-ness, monotonicity and flattening correctness are not decided"),
    "C13": ("value-origin flow for FallbackImmediate + generated CYCLE_STRATEGY table (MIR of salsa and of the expanded specimen crate)", "participant sets for concrete graphs are not decided"),
    "C15": ("const bound + loop-rank (back edge only via the incremented stamp) + must-panic handlers via interprocedural divergence (MIR)", "later revisions are not decided"),
    "C20": ("wait-loop exit condition and order around Arc::get_mut, who-may-get_mut census, cancellation-epoch conjunct analysis, atomic-ordering table, expanded setters (MIR)", "values after concrete histories are not decided"),
    "C21": ("bit algebra on the token constants, guard-type analysis, trigger/throw decision tables, attach-guard reset condition (MIR + specimen)", "schedules are not decided"),
    "C23": ("deferred-free flow, publication order + orderings on the page length, &mut-only reclamation census, Option-typestate before unwrap_unchecked (shared) (MIR)", "freedom from undefined behaviour in general is NOT decided (needs Miri/sanitizers, another family)"),
    "C24": ("page-ownership writers census and flow, publication order, bit-split algebra of make_id/split_id (MIR + consts)", "distinctness under concrete interleavings is not decided"),
    "C25": ("mask/shift algebra on const-evaluated items + writer/reader value-origin agreement, with the arithmetic lemma stated in DESIGN.md", "IndexSet order preservation is trusted; persistence round trip is C26"),
})

CLAIMED.update({
    "C26": ("writer/reader ordering and filtering obligations on the `persistence` configuration's MIR (exclusive access, structs-before-functions sort, final-memos-only filter, runtime restored last, no edge elision)", "equality of results after a round trip, absence of re-execution and the serde-derived field schemas are not decided"),
})

PENDING = "check not built yet in this round (see DESIGN.md section 5 for the planned static obligations)"
NOT_APPLICABLE = {"C26": "persistence is a non-default cargo feature; its writer/reader schema-agreement obligations are planned for the thorough tier (DESIGN.md C26) and are not built yet; value equality after a serde round trip and absence of re-execution quantify over runtime values and are out of reach of a static argument"}


def main():
    props = [json.loads(l) for l in open(os.path.join(ROOT, "properties.jsonl"))]
    ids = [p["id"] for p in props]
    nobl = {}
    for o in framework.REGISTRY:
        for p in list(o.props) + list(o.also):
            nobl[p] = nobl.get(p, 0) + 1
    checks = []
    na = []
    for pid in ids:
        if pid in CLAIMED:
            tech, note = CLAIMED[pid]
            checks.append({
                "property_id": pid,
                "quick_cmd": "./check %s --tier quick" % pid,
                "thorough_cmd": "./check %s --tier thorough" % pid,
                "evidence_file": "/verif/evidence/%s.json" % pid,
                "replay_cmd_template": "./check --explain {path}",
                "engine": "mirfacts+mirlib",
                "level_claimed": {
                    "category": "other",
                    "text": "Static analysis of /repo's current source (rustc MIR facts): %d structural obligations, each a necessary condition of the property, are decided for every CFG path / call site / unwind edge at once. "
                            "It is neither a proof of the behavioural statement nor an exploration of executions; it reaches shape-changing defects (comparison direction, dropped conjunct, reordered effects, wrong origin of a value) that need a specific history or schedule to show at run time." % nobl.get(pid, 0),
                    "design_ref": "DESIGN.md section 5, " + pid,
                },
                "level_note": note + "; trusted base: rustc nightly front-end/MIR building, tools/mirfacts, salsa_verif/mirlib, the necessity argument attached to each obligation, external-crate API contracts (DESIGN.md Appendix D)",
                "technique": tech,
            })
        else:
            na.append({"property_id": pid, "reason": NOT_APPLICABLE.get(pid, PENDING)})
    m = {
        "version": 1,
        "setup_cmd": "./check --setup",
        "hooks": {
            "guard": "salsa_rs_salsa_verif",
            "enable": "no hooks: the analysis reads private items through the compiler (rustc_private driver) and the witnesses use the public API",
            "baseline_off_cmd": "cd /repo && (cargo nextest run --workspace --no-fail-fast --test-threads 8 --offline || cargo test --workspace --no-fail-fast --offline)",
            "source_commits": [],
            "add_only": True,
        },
        "engines": [
            {"name": "mirfacts", "path": "/verif/tools/mirfacts", "serves_properties": sorted(CLAIMED), "kind_free_text": "rustc_private driver (RUSTC_WORKSPACE_WRAPPER under cargo +nightly check) dumping resolved MIR, ADT/impl/const tables as JSON facts"},
            {"name": "mirlib+obligations", "path": "/verif/salsa_verif", "serves_properties": sorted(CLAIMED), "kind_free_text": "python3 static analyses (CFG pruning, dominators, reaching-definition origins, edge-cut guard analysis with helper inlining, must-call summaries) + per-property obligation catalogue"},
        ],
        "checks": checks,
        "notes": "Technique family: static analysis only. exit 0 = all obligations discharged; exit 1 + VIOLATION = a positive contradiction, or (fail closed) an obligation that could not be established on this source - anchor missing / value of a form the rule cannot classify; the replay file then says kind=unestablished and an INCONCLUSIVE line gives the reason; exit 3 only if the tree does not build in the analysed configuration (nothing analysed). No hooks were added to /repo; /repo carries three unguarded `fix:` commits for genuine defects (30763b3 F1, e21661c F3, 028d247 F4) and four recorded known findings (F2, F2b, F5, F6) - see known_findings.json and DESIGN.md.",
        "not_applicable": na,
    }
    json.dump(m, open(os.path.join(ROOT, "MANIFEST.json"), "w"), indent=1)
    print("claimed:", sorted(CLAIMED), "not_applicable:", len(na))


if __name__ == "__main__":
    main()
