//! mirfacts: a rustc driver that dumps type-checked MIR of selected crates as JSON facts.
//!
//! Used as RUSTC_WORKSPACE_WRAPPER under `cargo +nightly check`. For crates whose name is
//! listed in $MIRFACTS_CRATES it writes `$MIRFACTS_OUT/<crate>.json` (one write per process)
//! in `after_analysis`; for every other crate it behaves as plain rustc.
#![feature(rustc_private)]
#![allow(clippy::all)]

extern crate rustc_abi;
extern crate rustc_driver;
extern crate rustc_hir;
extern crate rustc_interface;
extern crate rustc_middle;
extern crate rustc_span;

use std::fmt::Write as _;

use rustc_driver::{Callbacks, Compilation};
use rustc_hir::def::DefKind;
use rustc_hir::def_id::{DefId, LocalDefId};
use rustc_middle::mir::{
    AggregateKind, BasicBlock, BinOp, Body, BorrowKind, CastKind, Const, ConstValue, Operand,
    Place, PlaceRef, ProjectionElem, Rvalue, StatementKind, TerminatorKind, UnwindAction,
};
use rustc_middle::ty::print::with_no_trimmed_paths;
use rustc_middle::ty::{self, GenericArgsRef, Instance, Ty, TyCtxt, TypeVisitableExt, TypingEnv};
use rustc_span::{ExpnKind, Span};

// ------------------------------------------------------------------------------------------
// tiny JSON writer

fn esc(s: &str, out: &mut String) {
    out.push('"');
    for c in s.chars() {
        match c {
            '"' => out.push_str("\\\""),
            '\\' => out.push_str("\\\\"),
            '\n' => out.push_str("\\n"),
            '\r' => out.push_str("\\r"),
            '\t' => out.push_str("\\t"),
            c if (c as u32) < 0x20 => {
                let _ = write!(out, "\\u{:04x}", c as u32);
            }
            c => out.push(c),
        }
    }
    out.push('"');
}

fn js(s: &str) -> String {
    let mut o = String::new();
    esc(s, &mut o);
    o
}

fn jopt(s: Option<String>) -> String {
    match s {
        Some(s) => js(&s),
        None => "null".to_string(),
    }
}

fn jarr(items: impl IntoIterator<Item = String>) -> String {
    let mut o = String::from("[");
    let mut first = true;
    for i in items {
        if !first {
            o.push(',');
        }
        first = false;
        o.push_str(&i);
    }
    o.push(']');
    o
}

fn jobj(items: &[(&str, String)]) -> String {
    let mut o = String::from("{");
    let mut first = true;
    for (k, v) in items {
        if !first {
            o.push(',');
        }
        first = false;
        esc(k, &mut o);
        o.push(':');
        o.push_str(v);
    }
    o.push('}');
    o
}

// ------------------------------------------------------------------------------------------

struct Cx<'tcx> {
    tcx: TyCtxt<'tcx>,
}

impl<'tcx> Cx<'tcx> {
    fn path(&self, did: DefId) -> String {
        with_no_trimmed_paths!(self.tcx.def_path_str(did))
    }

    fn ty_str(&self, ty: Ty<'tcx>) -> String {
        with_no_trimmed_paths!(format!("{}", ty))
    }

    /// ADT def path after peeling references / raw pointers / Box-less wrappers.
    fn ty_adt(&self, mut ty: Ty<'tcx>) -> Option<String> {
        loop {
            match ty.kind() {
                ty::Ref(_, t, _) => ty = *t,
                ty::RawPtr(t, _) => ty = *t,
                ty::Adt(def, _) => return Some(self.path(def.did())),
                _ => return None,
            }
        }
    }

    fn line(&self, span: Span) -> (String, usize) {
        let sm = self.tcx.sess.source_map();
        let sp = span.source_callsite();
        let loc = sm.lookup_char_pos(sp.lo());
        let name = format!("{}", loc.file.name.prefer_local_unconditionally());
        (name, loc.line)
    }

    fn expn(&self, span: Span) -> String {
        if !span.from_expansion() {
            return "null".to_string();
        }
        // outermost expansion = last element of the backtrace
        let mut last = None;
        let mut all = Vec::new();
        for e in span.macro_backtrace() {
            let d = match e.kind {
                ExpnKind::Macro(_, name) => name.to_string(),
                ExpnKind::Desugaring(k) => format!("desugar:{:?}", k),
                ExpnKind::AstPass(p) => format!("astpass:{:?}", p),
                ExpnKind::Root => "root".to_string(),
            };
            all.push(d.clone());
            last = Some(d);
        }
        match last {
            Some(_) => jarr(all.iter().map(|s| js(s))),
            None => "null".to_string(),
        }
    }

    fn place(&self, body: &Body<'tcx>, p: Place<'tcx>) -> String {
        self.place_ref(body, p.as_ref())
    }

    fn place_ref(&self, body: &Body<'tcx>, p: PlaceRef<'tcx>) -> String {
        let tcx = self.tcx;
        let mut projs = Vec::new();
        for (base, elem) in p.iter_projections() {
            let s = match elem {
                ProjectionElem::Deref => "\"*\"".to_string(),
                ProjectionElem::Field(f, fty) => {
                    let bty = base.ty(&body.local_decls, tcx);
                    let (name, owner) = match bty.ty.kind() {
                        ty::Adt(def, _) => {
                            let vi = bty.variant_index.unwrap_or(rustc_abi::FIRST_VARIANT);
                            let v = def.variant(vi);
                            let fname = v.fields[f].name.to_string();
                            let mut owner = self.path(def.did());
                            if def.is_enum() {
                                owner = format!("{}::{}", owner, v.name);
                            }
                            (fname, Some(owner))
                        }
                        ty::Closure(did, _) => (format!("{}", f.as_usize()), Some(self.path(*did))),
                        _ => (format!("{}", f.as_usize()), None),
                    };
                    jarr([
                        "\"f\"".to_string(),
                        format!("{}", f.as_usize()),
                        js(&name),
                        jopt(owner),
                        js(&self.ty_str(fty)),
                    ])
                }
                ProjectionElem::Index(l) => jarr(["\"i\"".to_string(), format!("{}", l.as_usize())]),
                ProjectionElem::ConstantIndex { offset, min_length, from_end } => jarr([
                    "\"ci\"".to_string(),
                    format!("{}", offset),
                    format!("{}", min_length),
                    format!("{}", from_end),
                ]),
                ProjectionElem::Subslice { from, to, from_end } => jarr([
                    "\"sub\"".to_string(),
                    format!("{}", from),
                    format!("{}", to),
                    format!("{}", from_end),
                ]),
                ProjectionElem::Downcast(name, vi) => {
                    let n = match name {
                        Some(n) => n.to_string(),
                        None => {
                            let bty = base.ty(&body.local_decls, tcx);
                            match bty.ty.kind() {
                                ty::Adt(def, _) => def.variant(vi).name.to_string(),
                                _ => format!("{}", vi.as_usize()),
                            }
                        }
                    };
                    jarr(["\"d\"".to_string(), js(&n), format!("{}", vi.as_usize())])
                }
                ProjectionElem::OpaqueCast(_) => "\"opaque\"".to_string(),
                ProjectionElem::UnwrapUnsafeBinder(_) => "\"unwrapbinder\"".to_string(),
            };
            projs.push(s);
        }
        jobj(&[("l", format!("{}", p.local.as_usize())), ("pj", jarr(projs))])
    }

    fn scalar_of_const(&self, body_did: DefId, c: &Const<'tcx>) -> Option<u128> {
        let tcx = self.tcx;
        let env = TypingEnv::post_analysis(tcx, body_did);
        let ty = c.ty();
        if !(ty.is_integral() || ty.is_bool() || ty.is_char() || ty.is_enum()) {
            return None;
        }
        // only attempt evaluation on consts that need no generic parameters
        match c {
            Const::Val(ConstValue::Scalar(s), _) => {
                let i = s.try_to_scalar_int().ok()?;
                Some(i.to_bits_unchecked())
            }
            Const::Val(..) => None,
            Const::Ty(_, ct) => {
                let v = ct.try_to_value()?;
                let leaf = v.try_to_leaf()?;
                Some(leaf.to_bits_unchecked())
            }
            Const::Unevaluated(uv, _) => {
                if uv.args.iter().any(|a| a.has_param()) {
                    return None;
                }
                let _ = env;
                match tcx.const_eval_resolve(env, *uv, rustc_span::DUMMY_SP) {
                    Ok(ConstValue::Scalar(s)) => {
                        let i = s.try_to_scalar_int().ok()?;
                        Some(i.to_bits_unchecked())
                    }
                    _ => None,
                }
            }
        }
    }

    fn enum_variant_name(&self, ty: Ty<'tcx>, bits: u128) -> Option<String> {
        if let ty::Adt(def, _) = ty.kind() {
            if def.is_enum() {
                for (vi, d) in def.discriminants(self.tcx) {
                    if d.val == bits {
                        return Some(def.variant(vi).name.to_string());
                    }
                }
            }
        }
        None
    }

    fn constant(&self, body_did: DefId, c: &Const<'tcx>) -> String {
        let tcx = self.tcx;
        let ty = c.ty();
        let mut items: Vec<(&str, String)> = Vec::new();
        items.push(("ty", js(&self.ty_str(ty))));
        if let ty::FnDef(did, args) = ty.kind() {
            items.push(("fn", self.fn_ref(body_did, *did, args)));
        } else if let ty::Closure(did, _) = ty.kind() {
            items.push(("closure", js(&self.path(*did))));
        }
        match c {
            Const::Unevaluated(uv, _) => {
                items.push(("uneval", js(&self.path(uv.def))));
                if let Some(p) = uv.promoted {
                    items.push(("promoted", format!("{}", p.as_usize())));
                }
                let args: Vec<String> =
                    uv.args.iter().map(|a| js(&with_no_trimmed_paths!(format!("{}", a)))).collect();
                items.push(("uargs", jarr(args)));
            }
            _ => {}
        }
        if let Some(bits) = self.scalar_of_const(body_did, c) {
            items.push(("v", js(&format!("{}", bits))));
            if let Some(n) = self.enum_variant_name(ty, bits) {
                items.push(("variant", js(&n)));
            }
        } else if let ty::Adt(def, _) = ty.kind() {
            // ZST / single-variant fieldless enums and unit structs
            if def.is_enum() && def.variants().len() == 1 {
                items.push(("variant", js(&def.variants().iter().next().unwrap().name.to_string())));
            }
        }
        let _ = tcx;
        items.push(("s", js(&with_no_trimmed_paths!(format!("{}", c)))));
        jobj(&items)
    }

    fn fn_ref(&self, body_did: DefId, did: DefId, args: GenericArgsRef<'tcx>) -> String {
        let tcx = self.tcx;
        let mut items: Vec<(&str, String)> = Vec::new();
        items.push(("def", js(&self.path(did))));
        items.push(("krate", js(&tcx.crate_name(did.krate).to_string())));
        let gargs: Vec<String> =
            args.iter().map(|a| js(&with_no_trimmed_paths!(format!("{}", a)))).collect();
        items.push(("gargs", jarr(gargs)));
        items.push(("name", js(&tcx.item_name(did).to_string())));
        if let Some(tr) = tcx.trait_of_assoc(did) {
            items.push(("trait", js(&self.path(tr))));
            if args.len() > 0 {
                if let Some(st) = args[0].as_type() {
                    items.push(("self_ty", js(&self.ty_str(st))));
                    if let Some(a) = self.ty_adt(st) {
                        items.push(("self_adt", js(&a)));
                    }
                    if let ty::Closure(cd, _) = st.kind() {
                        items.push(("self_closure", js(&self.path(*cd))));
                    }
                }
            }
            let env = TypingEnv::post_analysis(tcx, body_did);
            if matches!(tcx.def_kind(did), DefKind::Fn | DefKind::AssocFn) {
                if let Ok(Some(inst)) = Instance::try_resolve(tcx, env, did, args) {
                    match inst.def {
                        ty::InstanceKind::Item(d) => {
                            if d != did {
                                items.push(("resolved", js(&self.path(d))));
                            } else {
                                // default method body of the trait itself
                                items.push(("resolved", js(&self.path(d))));
                            }
                        }
                        ty::InstanceKind::Virtual(..) => items.push(("virtual", "true".to_string())),
                        ty::InstanceKind::ClosureOnceShim { .. }
                        | ty::InstanceKind::FnPtrShim(..) => {}
                        _ => {}
                    }
                }
            }
        } else if let Some(imp) = tcx.inherent_impl_of_assoc(did) {
            let st = tcx.type_of(imp).instantiate_identity().skip_norm_wip();
            items.push(("self_ty", js(&self.ty_str(st))));
            if let Some(a) = self.ty_adt(st) {
                items.push(("self_adt", js(&a)));
            }
        }
        jobj(&items)
    }

    fn operand(&self, body: &Body<'tcx>, body_did: DefId, op: &Operand<'tcx>) -> String {
        match op {
            Operand::Copy(p) => jobj(&[("c", self.place(body, *p))]),
            Operand::Move(p) => jobj(&[("m", self.place(body, *p))]),
            Operand::Constant(c) => jobj(&[("k", self.constant(body_did, &c.const_))]),
            Operand::RuntimeChecks(rc) => jobj(&[("rt", js(&format!("{:?}", rc)))]),
        }
    }

    fn rvalue(&self, body: &Body<'tcx>, body_did: DefId, rv: &Rvalue<'tcx>) -> String {
        let tcx = self.tcx;
        match rv {
            Rvalue::Use(op, _) => jobj(&[("k", js("use")), ("o", self.operand(body, body_did, op))]),
            Rvalue::Repeat(op, n) => jobj(&[
                ("k", js("repeat")),
                ("o", self.operand(body, body_did, op)),
                ("n", js(&with_no_trimmed_paths!(format!("{}", n)))),
            ]),
            Rvalue::Ref(_, bk, p) => jobj(&[
                ("k", js("ref")),
                ("mut", format!("{}", matches!(bk, BorrowKind::Mut { .. }))),
                ("p", self.place(body, *p)),
            ]),
            Rvalue::ThreadLocalRef(d) => jobj(&[("k", js("tls")), ("def", js(&self.path(*d)))]),
            Rvalue::RawPtr(k, p) => jobj(&[
                ("k", js("rawptr")),
                ("mut", format!("{}", matches!(k, rustc_middle::mir::RawPtrKind::Mut))),
                ("p", self.place(body, *p)),
            ]),
            Rvalue::Cast(ck, op, ty) => {
                let k = match ck {
                    CastKind::Transmute => "Transmute".to_string(),
                    other => format!("{:?}", other),
                };
                let from = op.ty(&body.local_decls, tcx);
                jobj(&[
                    ("k", js("cast")),
                    ("ck", js(&k)),
                    ("o", self.operand(body, body_did, op)),
                    ("from", js(&self.ty_str(from))),
                    ("ty", js(&self.ty_str(*ty))),
                ])
            }
            Rvalue::BinaryOp(op, ab) => {
                let (a, b) = &**ab;
                let aty = a.ty(&body.local_decls, tcx);
                jobj(&[
                    ("k", js("bin")),
                    ("op", js(&binop(*op))),
                    ("a", self.operand(body, body_did, a)),
                    ("b", self.operand(body, body_did, b)),
                    ("aty", js(&self.ty_str(aty))),
                ])
            }
            Rvalue::UnaryOp(op, a) => jobj(&[
                ("k", js("un")),
                ("op", js(&format!("{:?}", op))),
                ("a", self.operand(body, body_did, a)),
            ]),
            Rvalue::Discriminant(p) => {
                let pty = p.ty(&body.local_decls, tcx).ty;
                let mut variants = Vec::new();
                if let ty::Adt(def, _) = pty.kind() {
                    if def.is_enum() {
                        for (vi, d) in def.discriminants(tcx) {
                            variants.push(jarr([js(&format!("{}", d.val)), js(&def.variant(vi).name.to_string())]));
                        }
                    }
                }
                jobj(&[
                    ("k", js("discr")),
                    ("p", self.place(body, *p)),
                    ("adt", jopt(self.ty_adt(pty))),
                    ("variants", jarr(variants)),
                ])
            }
            Rvalue::Aggregate(ak, ops) => {
                let mut items: Vec<(&str, String)> = vec![("k", js("agg"))];
                match &**ak {
                    AggregateKind::Array(_) => items.push(("ak", js("array"))),
                    AggregateKind::Tuple => items.push(("ak", js("tuple"))),
                    AggregateKind::Adt(did, vi, _, _, active) => {
                        items.push(("ak", js("adt")));
                        let def = tcx.adt_def(*did);
                        items.push(("adt", js(&self.path(*did))));
                        let v = def.variant(*vi);
                        items.push(("variant", js(&v.name.to_string())));
                        let names: Vec<String> = match active {
                            Some(f) => vec![js(&v.fields[*f].name.to_string())],
                            None => v.fields.iter().map(|f| js(&f.name.to_string())).collect(),
                        };
                        items.push(("fields", jarr(names)));
                    }
                    AggregateKind::Closure(did, _) => {
                        items.push(("ak", js("closure")));
                        items.push(("def", js(&self.path(*did))));
                    }
                    AggregateKind::Coroutine(did, _) => {
                        items.push(("ak", js("coroutine")));
                        items.push(("def", js(&self.path(*did))));
                    }
                    AggregateKind::CoroutineClosure(did, _) => {
                        items.push(("ak", js("coroutineclosure")));
                        items.push(("def", js(&self.path(*did))));
                    }
                    AggregateKind::RawPtr(..) => items.push(("ak", js("rawptr"))),
                }
                items.push(("ops", jarr(ops.iter().map(|o| self.operand(body, body_did, o)))));
                jobj(&items)
            }
            Rvalue::CopyForDeref(p) => jobj(&[("k", js("use")), ("o", jobj(&[("c", self.place(body, *p))]))]),
            Rvalue::WrapUnsafeBinder(op, _) => {
                jobj(&[("k", js("use")), ("o", self.operand(body, body_did, op))])
            }
        }
    }

    fn unwind(&self, u: &UnwindAction) -> String {
        match u {
            UnwindAction::Continue => js("continue"),
            UnwindAction::Unreachable => js("unreachable"),
            UnwindAction::Terminate(_) => js("terminate"),
            UnwindAction::Cleanup(bb) => format!("{}", bb.as_usize()),
        }
    }

    fn bb(&self, b: Option<BasicBlock>) -> String {
        match b {
            Some(b) => format!("{}", b.as_usize()),
            None => "null".to_string(),
        }
    }

    fn body(&self, body_did: DefId, body: &Body<'tcx>) -> String {
        let tcx = self.tcx;
        // locals
        let mut names: Vec<Option<String>> = vec![None; body.local_decls.len()];
        for vdi in &body.var_debug_info {
            if let rustc_middle::mir::VarDebugInfoContents::Place(p) = vdi.value {
                if p.projection.is_empty() && vdi.composite.is_none() {
                    let slot = &mut names[p.local.as_usize()];
                    if slot.is_none() {
                        *slot = Some(vdi.name.to_string());
                    }
                }
            }
        }
        // closure captured variable names (debuginfo of the form _1.N or (*_1).N)
        let mut captures: Vec<String> = Vec::new();
        for vdi in &body.var_debug_info {
            if let rustc_middle::mir::VarDebugInfoContents::Place(p) = vdi.value {
                if !p.projection.is_empty() && p.local.as_usize() == 1 {
                    let mut fi = None;
                    for e in p.projection.iter() {
                        if let ProjectionElem::Field(f, _) = e {
                            fi = Some(f.as_usize());
                            break;
                        }
                    }
                    if let Some(fi) = fi {
                        captures.push(jarr([format!("{}", fi), js(&vdi.name.to_string())]));
                    }
                }
            }
        }
        let locals = jarr(body.local_decls.iter_enumerated().map(|(l, d)| {
            jobj(&[
                ("ty", js(&self.ty_str(d.ty))),
                ("name", jopt(names[l.as_usize()].clone())),
                ("adt", jopt(self.ty_adt(d.ty))),
            ])
        }));
        let blocks = jarr(body.basic_blocks.iter().map(|bbd| {
            let stmts = jarr(bbd.statements.iter().filter_map(|st| {
                let (_, ln) = self.line(st.source_info.span);
                match &st.kind {
                    StatementKind::Assign(b) => {
                        let (p, rv) = &**b;
                        Some(jobj(&[
                            ("k", js("assign")),
                            ("p", self.place(body, *p)),
                            ("rv", self.rvalue(body, body_did, rv)),
                            ("ln", format!("{}", ln)),
                            ("exp", self.expn(st.source_info.span)),
                        ]))
                    }
                    StatementKind::SetDiscriminant { place, variant_index } => {
                        let pty = place.ty(&body.local_decls, tcx).ty;
                        let vn = match pty.kind() {
                            ty::Adt(def, _) => def.variant(*variant_index).name.to_string(),
                            _ => format!("{}", variant_index.as_usize()),
                        };
                        Some(jobj(&[
                            ("k", js("setdiscr")),
                            ("p", self.place(body, **place)),
                            ("variant", js(&vn)),
                            ("ln", format!("{}", ln)),
                        ]))
                    }
                    StatementKind::Intrinsic(i) => Some(jobj(&[
                        ("k", js("intrinsic")),
                        ("s", js(&format!("{:?}", i))),
                        ("ln", format!("{}", ln)),
                    ])),
                    _ => None,
                }
            }));
            let term = bbd.terminator();
            let (_, ln) = self.line(term.source_info.span);
            let exp = self.expn(term.source_info.span);
            let t = match &term.kind {
                TerminatorKind::Goto { target } => {
                    jobj(&[("k", js("goto")), ("t", format!("{}", target.as_usize()))])
                }
                TerminatorKind::SwitchInt { discr, targets } => {
                    let dty = discr.ty(&body.local_decls, tcx);
                    let ts = jarr(
                        targets
                            .iter()
                            .map(|(v, b)| jarr([js(&format!("{}", v)), format!("{}", b.as_usize())])),
                    );
                    jobj(&[
                        ("k", js("switch")),
                        ("o", self.operand(body, body_did, discr)),
                        ("ty", js(&self.ty_str(dty))),
                        ("targets", ts),
                        ("otherwise", format!("{}", targets.otherwise().as_usize())),
                    ])
                }
                TerminatorKind::UnwindResume => jobj(&[("k", js("resume"))]),
                TerminatorKind::UnwindTerminate(_) => jobj(&[("k", js("terminate"))]),
                TerminatorKind::Return => jobj(&[("k", js("return"))]),
                TerminatorKind::Unreachable => jobj(&[("k", js("unreachable"))]),
                TerminatorKind::Drop { place, target, unwind, .. } => {
                    let pty = place.ty(&body.local_decls, tcx).ty;
                    jobj(&[
                        ("k", js("drop")),
                        ("p", self.place(body, *place)),
                        ("ty", js(&self.ty_str(pty))),
                        ("adt", jopt(self.ty_adt(pty))),
                        ("t", format!("{}", target.as_usize())),
                        ("u", self.unwind(unwind)),
                    ])
                }
                TerminatorKind::Call { func, args, destination, target, unwind, .. } => {
                    let fty = func.ty(&body.local_decls, tcx);
                    let f = match fty.kind() {
                        ty::FnDef(did, gargs) => self.fn_ref(body_did, *did, gargs),
                        _ => jobj(&[
                            ("op", self.operand(body, body_did, func)),
                            ("ty", js(&self.ty_str(fty))),
                        ]),
                    };
                    let a = jarr(args.iter().map(|a| self.operand(body, body_did, &a.node)));
                    let atys = jarr(
                        args.iter()
                            .map(|a| js(&self.ty_str(a.node.ty(&body.local_decls, tcx)))),
                    );
                    jobj(&[
                        ("k", js("call")),
                        ("fn", f),
                        ("args", a),
                        ("atys", atys),
                        ("dest", self.place(body, *destination)),
                        ("t", self.bb(*target)),
                        ("u", self.unwind(unwind)),
                    ])
                }
                TerminatorKind::TailCall { func, args, .. } => {
                    let fty = func.ty(&body.local_decls, tcx);
                    let f = match fty.kind() {
                        ty::FnDef(did, gargs) => self.fn_ref(body_did, *did, gargs),
                        _ => jobj(&[("op", self.operand(body, body_did, func))]),
                    };
                    let a = jarr(args.iter().map(|a| self.operand(body, body_did, &a.node)));
                    jobj(&[("k", js("tailcall")), ("fn", f), ("args", a)])
                }
                TerminatorKind::Assert { cond, expected, msg, target, unwind } => jobj(&[
                    ("k", js("assert")),
                    ("cond", self.operand(body, body_did, cond)),
                    ("expected", format!("{}", expected)),
                    ("msg", js(&format!("{:?}", msg).chars().take(60).collect::<String>())),
                    ("t", format!("{}", target.as_usize())),
                    ("u", self.unwind(unwind)),
                ]),
                TerminatorKind::FalseEdge { real_target, .. } => {
                    jobj(&[("k", js("goto")), ("t", format!("{}", real_target.as_usize()))])
                }
                TerminatorKind::FalseUnwind { real_target, .. } => {
                    jobj(&[("k", js("goto")), ("t", format!("{}", real_target.as_usize()))])
                }
                TerminatorKind::Yield { .. } => jobj(&[("k", js("yield"))]),
                TerminatorKind::CoroutineDrop => jobj(&[("k", js("coroutinedrop"))]),
                TerminatorKind::InlineAsm { .. } => jobj(&[("k", js("asm"))]),
            };
            // splice ln/exp into the terminator object
            let t = format!("{},\"ln\":{},\"exp\":{}}}", &t[..t.len() - 1], ln, exp);
            jobj(&[("cleanup", format!("{}", bbd.is_cleanup)), ("stmts", stmts), ("term", t)])
        }));
        jobj(&[
            ("argc", format!("{}", body.arg_count)),
            ("locals", locals),
            ("captures", jarr(captures)),
            ("blocks", blocks),
        ])
    }

    fn body_entry(&self, ldid: LocalDefId) -> Option<(String, String)> {
        let tcx = self.tcx;
        let did = ldid.to_def_id();
        let kind = tcx.def_kind(did);
        if !matches!(kind, DefKind::Fn | DefKind::AssocFn | DefKind::Closure) {
            return None;
        }
        if !tcx.is_mir_available(did) {
            return None;
        }
        let body = tcx.optimized_mir(did);
        let path = self.path(did);
        let (file, lo) = self.line(body.span);
        let sm = tcx.sess.source_map();
        let hi = sm.lookup_char_pos(body.span.source_callsite().hi()).line;
        let mut items: Vec<(&str, String)> = Vec::new();
        items.push(("kind", js(&format!("{:?}", kind))));
        items.push(("file", js(&file)));
        items.push(("lo", format!("{}", lo)));
        items.push(("hi", format!("{}", hi)));
        items.push(("exp", self.expn(body.span)));
        let parent = tcx.parent(did);
        items.push(("parent", js(&self.path(parent))));
        items.push(("name", js(&match kind {
            DefKind::Closure => "{closure}".to_string(),
            _ => tcx.item_name(did).to_string(),
        })));
        if matches!(kind, DefKind::Fn | DefKind::AssocFn) {
            let sig = tcx.fn_sig(did).instantiate_identity().skip_norm_wip();
            let sig = sig.skip_binder();
            items.push(("unsafe", format!("{}", sig.safety().is_unsafe())));
            items.push(("inputs", jarr(sig.inputs().iter().map(|t| js(&self.ty_str(*t))))));
            items.push(("output", js(&self.ty_str(sig.output()))));
            let vis = tcx.visibility(did);
            items.push(("pub", format!("{}", vis.is_public())));
        }
        if kind == DefKind::AssocFn {
            if let Some(imp) = tcx.impl_of_assoc(did) {
                let st = tcx.type_of(imp).instantiate_identity().skip_norm_wip();
                items.push(("impl_self", js(&self.ty_str(st))));
                items.push(("impl_self_adt", jopt(self.ty_adt(st))));
                if let Some(tr) = tcx.impl_opt_trait_ref(imp) {
                    let tr = tr.instantiate_identity().skip_norm_wip();
                    items.push(("impl_trait", js(&self.path(tr.def_id))));
                }
            } else if let Some(tr) = tcx.trait_of_assoc(did) {
                items.push(("trait_default", js(&self.path(tr))));
            }
        }
        let b = self.body(did, body);
        // splice body object
        items.push(("mir", b));
        let promoted = tcx.promoted_mir(did);
        items.push(("promoted", jarr(promoted.iter().map(|p| self.body(did, p)))));
        Some((path, jobj(&items)))
    }

    fn tables(&self) -> Vec<(&'static str, String)> {
        let tcx = self.tcx;
        let mut adts = Vec::new();
        let mut impls = Vec::new();
        let mut consts = Vec::new();
        for ldid in tcx.hir_crate_items(()).definitions() {
            let did = ldid.to_def_id();
            match tcx.def_kind(did) {
                DefKind::Struct | DefKind::Enum | DefKind::Union => {
                    let def = tcx.adt_def(did);
                    let variants = jarr(def.variants().iter_enumerated().map(|(vi, v)| {
                        let discr = if def.is_enum() {
                            format!("\"{}\"", def.discriminant_for_variant(tcx, vi).val)
                        } else {
                            "null".to_string()
                        };
                        jobj(&[
                            ("name", js(&v.name.to_string())),
                            ("discr", discr),
                            (
                                "fields",
                                jarr(v.fields.iter().map(|f| {
                                    let fty = tcx.type_of(f.did).instantiate_identity().skip_norm_wip();
                                    jarr([js(&f.name.to_string()), js(&self.ty_str(fty))])
                                })),
                            ),
                        ])
                    }));
                    adts.push((
                        self.path(did),
                        jobj(&[
                            ("kind", js(&format!("{:?}", tcx.def_kind(did)))),
                            ("repr", js(&format!("{:?}", def.repr()))),
                            ("variants", variants),
                        ]),
                    ));
                }
                DefKind::Impl { of_trait } => {
                    let st = tcx.type_of(did).instantiate_identity().skip_norm_wip();
                    let tr = if of_trait {
                        tcx.impl_opt_trait_ref(did)
                            .map(|t| self.path(t.instantiate_identity().skip_norm_wip().def_id))
                    } else {
                        None
                    };
                    let derived = tcx.is_automatically_derived(did);
                    let methods = jarr(tcx.associated_items(did).in_definition_order().map(|ai| {
                        jarr([
                            js(&ai.opt_name().map(|n| n.to_string()).unwrap_or_default()),
                            js(&self.path(ai.def_id)),
                            js(&format!("{:?}", ai.kind).chars().take(5).collect::<String>()),
                        ])
                    }));
                    impls.push(jobj(&[
                        ("path", js(&self.path(did))),
                        ("trait", jopt(tr)),
                        ("self", js(&self.ty_str(st))),
                        ("self_adt", jopt(self.ty_adt(st))),
                        ("derived", format!("{}", derived)),
                        ("items", methods),
                    ]));
                }
                DefKind::Const { .. } | DefKind::AssocConst { .. } => {
                    let generics = tcx.generics_of(did);
                    if generics.count() != 0 || generics.parent_count != 0 {
                        // may still be evaluable if no param is used; try with identity args guarded
                        let has_params = generics.count() + generics.parent_count > 0;
                        if has_params {
                            consts.push((
                                self.path(did),
                                jobj(&[("generic", "true".to_string())]),
                            ));
                            continue;
                        }
                    }
                    // trait-associated consts without a value cannot be evaluated
                    if tcx.trait_of_assoc(did).is_some() && tcx.impl_of_assoc(did).is_none() {
                        continue;
                    }
                    let ty = tcx.type_of(did).instantiate_identity().skip_norm_wip();
                    let mut items: Vec<(&str, String)> = vec![("ty", js(&self.ty_str(ty)))];
                    if let Ok(v) = tcx.const_eval_poly(did) {
                        if let ConstValue::Scalar(s) = v {
                            if let Ok(i) = s.try_to_scalar_int() {
                                let bits = i.to_bits_unchecked();
                                items.push(("v", js(&format!("{}", bits))));
                                if let Some(n) = self.enum_variant_name(ty, bits) {
                                    items.push(("variant", js(&n)));
                                }
                            }
                        } else {
                            // try to destructure small ADT wrappers (newtype around an int)
                            if let Some(bits) = self.newtype_scalar(did, ty, v) {
                                items.push(("v", js(&format!("{}", bits))));
                            }
                        }
                    }
                    consts.push((self.path(did), jobj(&items)));
                }
                _ => {}
            }
        }
        let adts_s = {
            let v: Vec<(String, String)> = adts;
            let mut o = String::from("{");
            for (i, (k, val)) in v.iter().enumerate() {
                if i > 0 {
                    o.push(',');
                }
                esc(k, &mut o);
                o.push(':');
                o.push_str(val);
            }
            o.push('}');
            o
        };
        let consts_s = {
            let mut o = String::from("{");
            for (i, (k, val)) in consts.iter().enumerate() {
                if i > 0 {
                    o.push(',');
                }
                esc(k, &mut o);
                o.push(':');
                o.push_str(val);
            }
            o.push('}');
            o
        };
        vec![("adts", adts_s), ("impls", jarr(impls)), ("consts", consts_s)]
    }

    fn newtype_scalar(&self, _did: DefId, _ty: Ty<'tcx>, _v: ConstValue) -> Option<u128> {
        None
    }
}

fn binop(op: BinOp) -> String {
    format!("{:?}", op)
}

struct Cb {
    out: String,
}

impl Callbacks for Cb {
    fn after_analysis<'tcx>(
        &mut self,
        _compiler: &rustc_interface::interface::Compiler,
        tcx: TyCtxt<'tcx>,
    ) -> Compilation {
        let cx = Cx { tcx };
        let krate = tcx.crate_name(rustc_hir::def_id::LOCAL_CRATE).to_string();
        let mut out = String::with_capacity(64 << 20);
        out.push_str("{\"crate\":");
        esc(&krate, &mut out);
        // enabled features
        let mut feats: Vec<String> = Vec::new();
        for (name, val) in tcx.sess.config.iter() {
            if name.as_str() == "feature" {
                if let Some(v) = val {
                    feats.push(v.to_string());
                }
            }
        }
        feats.sort();
        out.push_str(",\"features\":");
        out.push_str(&jarr(feats.iter().map(|f| js(f))));
        for (k, v) in cx.tables() {
            out.push(',');
            esc(k, &mut out);
            out.push(':');
            out.push_str(&v);
        }
        out.push_str(",\"bodies\":{");
        let mut first = true;
        let mut n = 0usize;
        for ldid in tcx.hir_body_owners() {
            if let Some((path, b)) = cx.body_entry(ldid) {
                if !first {
                    out.push(',');
                }
                first = false;
                esc(&path, &mut out);
                out.push(':');
                out.push_str(&b);
                n += 1;
            }
        }
        out.push_str("},\"nbodies\":");
        let _ = write!(out, "{}", n);
        out.push('}');
        let file = format!("{}/{}.json", self.out, krate);
        let tmp = format!("{}.tmp{}", file, std::process::id());
        std::fs::write(&tmp, out).expect("mirfacts: cannot write facts");
        std::fs::rename(&tmp, &file).expect("mirfacts: cannot rename facts");
        Compilation::Continue
    }
}

struct Plain;
impl Callbacks for Plain {}

fn main() {
    let mut args: Vec<String> = std::env::args().collect();
    // RUSTC_WORKSPACE_WRAPPER invocation: argv = [wrapper, rustc, args...]
    if args.len() > 1 && (args[1].ends_with("rustc") || args[1].contains("rustc")) && !args[1].starts_with('-') {
        args.remove(1);
    }
    let crates = std::env::var("MIRFACTS_CRATES").unwrap_or_else(|_| "salsa".to_string());
    let out = std::env::var("MIRFACTS_OUT").unwrap_or_else(|_| ".".to_string());
    let mut crate_name = None;
    let mut i = 0;
    while i < args.len() {
        if args[i] == "--crate-name" && i + 1 < args.len() {
            crate_name = Some(args[i + 1].clone());
        }
        i += 1;
    }
    // skip build scripts / proc-macro / test harness invocations
    let is_target = match &crate_name {
        Some(n) => crates.split(',').any(|c| c == n),
        None => false,
    };
    if is_target {
        let mut cb = Cb { out };
        rustc_driver::run_compiler(&args, &mut cb);
    } else {
        let mut cb = Plain;
        rustc_driver::run_compiler(&args, &mut cb);
    }
}
