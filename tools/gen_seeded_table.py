#!/usr/bin/env python3
"""Rewrites the region between <!-- SEEDED:BEGIN --> and <!-- SEEDED:END --> in DESIGN.md from seeded/*/{meta,detect}.json."""
import json, os, re
ROOT = os.path.dirname(os.path.dirname(os.path.abspath(__file__)))
rows = []
# verdict of the FIRST run of the checks against each change, before any strengthening (recorded by hand from the
# run logs; "first" = the state of the checks when the change arrived)
FIRST = {
    "C02-a1": "missed (INCONCLUSIVE only)", "C01-a3": "missed (INCONCLUSIVE only)", "C02-a3": "missed (assert removal hidden behind an aborted flow check)",
    "C07-a1": "missed (macro layer not analysed yet)", "C07-a2": "missed", "C07-a3": "missed", "C17-a3": "missed", "C19-a2": "missed", "C19-a3": "missed",
    "C12-a3": "caught by C01/C07 only", "C09-a3": "missed (`unsafe fn` exemption too wide)", "C10-a1": "missed", "C10-a2": "missed", "C10-a3": "INCONCLUSIVE only",
    "C06-a1": "INCONCLUSIVE only", "C06-a3": "caught by C14/C15/C21/C22 only", "C14-a3": "caught by C12/C20 only", "C18-a1": "missed", "C18-a2": "INCONCLUSIVE only", "C18-a3": "missed",
    "C16-a1": "caught by C23/C24 only", "C16-a3": "caught by C17 only",
    "C05-a1": "caught (NOT ESTABLISHED: LinkedHashSet::insert gone)", "C05-a2": "missed", "C05-a3": "caught by C01/C02/C12 only",
    "C03-a1": "caught by C01/C04/C10 only (NOT ESTABLISHED)", "C03-a2": "caught by C14/C16/C17 only",
    "C13-a2": "missed", "C13-a3": "missed", "C15-a2": "caught by C01/C07 only", "C11-a1": "caught by C01/C07 only", "C11-a3": "caught by C14/C15/C21/C22 only",
    "C23-a1": "missed (engine: a VariantIn literal matched a projection of the tested value)", "C23-a2": "caught by C06/C07/C22 only", "C23-a3": "missed",
    "C04-a1": "caught (NOT ESTABLISHED form)", "C04-a2": "caught (NOT ESTABLISHED: store gone)", "C08-a2": "caught by C09 only", "C08-a3": "missed",
    "C07-b1": "caught by C08/C09/C16/C23 only", "C07-b2": "NOT ESTABLISHED under C06/C11/C14/.. only", "C07-b3": "caught by C08/C09/C12 only",
    "C17-b1": "caught by C01/C12/C20 only", "C22-b1": "missed (window opened at the LRU unlink, not at the first mutation)", "C22-b2": "missed", "C22-b3": "caught by C12/C13/C18/C20 only",
    "C24-a2": "caught (NOT ESTABLISHED: drain gone)",
    "C12-b2": "NOT ESTABLISHED under C15 only", "C01-b1": "caught (NOT ESTABLISHED form)", "C01-b2": "missed", "C02-b2": "caught by C07/C08/C09 only",
    "C10-c1": "caught by C01/C12/C13/C18 only", "C10-c2": "NOT ESTABLISHED under C01/C06/C11 only", "C10-c3": "missed",
    "C06-c1": "missed", "C06-c3": "missed", "C16-c1": "missed", "C16-c3": "caught by C05/C23 only",
    "C19-c2": "missed (argument-only seed)", "C19-c3": "missed (argument-only seed)", "C20-c3": "caught by C01/C02/C12 only",
    "C14-c1": "missed", "C14-c2": "caught by C12/C13/C18/C20/C22 only", "C14-c3": "caught by C12/C20 only",
    "C13-c2": "caught by C01/C07/C12/C15 only", "C13-c3": "caught by C12/C14/C15/C20 only", "C18-c2": "missed", "C18-c3": "not a valid seed (killed by the existing suite)",
    "C26-a1": "missed", "C26-a2": "caught (NOT ESTABLISHED: whole-vector store gone)", "C26-a3": "missed",
}
for d in sorted(os.listdir(os.path.join(ROOT, "seeded"))):
    p = os.path.join(ROOT, "seeded", d)
    if not os.path.exists(os.path.join(p, "patch.diff")):
        continue
    meta = json.load(open(os.path.join(p, "meta.json"))) if os.path.exists(os.path.join(p, "meta.json")) else {}
    det = json.load(open(os.path.join(p, "detect.json"))) if os.path.exists(os.path.join(p, "detect.json")) else {}
    target = meta.get("property", "?")
    hit = [k for k, v in det.items() if v["exit"] == 1]
    inc = [k for k, v in det.items() if v["exit"] == 3]
    obs = []
    for k in hit:
        for v in det[k]["violations"]:
            m = re.match(r"obligation (\S+) ", v)
            if m and m.group(1) not in obs:
                obs.append(m.group(1))
    files = sorted(set(re.findall(r"^\+\+\+ b/(\S+)", open(os.path.join(p, "patch.diff")).read(), re.M)))
    verdict = "caught" if target in hit else ("caught by other property only" if hit else ("inconclusive" if inc else "MISSED"))
    rows.append("| %s | %s | %s | %s | %s | %s | %s | %s |" % (d, target, ", ".join(f.split("/")[-1] for f in files), {True: "yes", "partial": "partly (see meta.json)", "demo only": "demo only (suite: sub-agent's run)", False: "NO"}.get(meta.get("verified"), str(meta.get("verified", "pending"))), FIRST.get(d, "caught"), verdict, ", ".join(obs[:4]), ", ".join(x for x in hit if x != target)))
hdr = "| seed | target | file(s) | verified here | first run (before strengthening) | target's check now | obligations that fire | other properties that also alarm |\n|---|---|---|---|---|---|---|---|\n"
txt = hdr + "\n".join(rows) + "\n"
p = os.path.join(ROOT, "DESIGN.md")
s = open(p).read()
s = re.sub(r"<!-- SEEDED:BEGIN -->.*<!-- SEEDED:END -->", "<!-- SEEDED:BEGIN -->\n" + txt + "<!-- SEEDED:END -->", s, flags=re.S)
open(p, "w").write(s)
print(len(rows), "rows")
