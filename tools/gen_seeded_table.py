#!/usr/bin/env python3
"""Rewrites the region between <!-- SEEDED:BEGIN --> and <!-- SEEDED:END --> in DESIGN.md from seeded/*/{meta,detect}.json."""
import json, os, re
ROOT = os.path.dirname(os.path.dirname(os.path.abspath(__file__)))
rows = []
for d in sorted(os.listdir(os.path.join(ROOT, "seeded"))):
    p = os.path.join(ROOT, "seeded", d)
    if not os.path.exists(os.path.join(p, "patch.diff")):
        continue
    meta = json.load(open(os.path.join(p, "meta.json"))) if os.path.exists(os.path.join(p, "meta.json")) else {}
    det = json.load(open(os.path.join(p, "detect.json"))) if os.path.exists(os.path.join(p, "detect.json")) else {}
    target = meta.get("property", "?")
    hit = [k for k, v in det.items() if v["exit"] == 1]
    inc = [k for k, v in det.items() if v["exit"] == 3]
    obs = []
    for k in hit:
        for v in det[k]["violations"]:
            m = re.match(r"obligation (\S+) ", v)
            if m and m.group(1) not in obs:
                obs.append(m.group(1))
    files = sorted(set(re.findall(r"^\+\+\+ b/(\S+)", open(os.path.join(p, "patch.diff")).read(), re.M)))
    verdict = "caught" if target in hit else ("caught by other property only" if hit else ("inconclusive" if inc else "MISSED"))
    rows.append("| %s | %s | %s | %s | %s | %s | %s |" % (d, target, ", ".join(f.split("/")[-1] for f in files), meta.get("verified", ""), verdict, ", ".join(obs[:4]), ", ".join(x for x in hit if x != target)))
hdr = "| seed | target | file(s) | verified here | verdict of the target's check | obligations that fired | other properties that also alarmed |\n|---|---|---|---|---|---|---|\n"
txt = hdr + "\n".join(rows) + "\n"
p = os.path.join(ROOT, "DESIGN.md")
s = open(p).read()
s = re.sub(r"<!-- SEEDED:BEGIN -->.*<!-- SEEDED:END -->", "<!-- SEEDED:BEGIN -->\n" + txt + "<!-- SEEDED:END -->", s, flags=re.S)
open(p, "w").write(s)
print(len(rows), "rows")
