#!/usr/bin/env python3
"""Behaviour-preserving (or strictly more conservative) rewrites: every check must stay silent (no VIOLATION;
INCONCLUSIVE is reported separately). s10 is 'more conservative': it may alarm precision properties (C03) only."""
import json, subprocess, os, re, sys
ROOT = os.path.dirname(os.path.dirname(os.path.abspath(__file__)))
REPO = os.environ.get("VERIF_REPO", "/repo")
for v in json.load(open(ROOT + "/selftest/silent.json")):
    if len(sys.argv) > 1 and v["id"] not in sys.argv[1:]:
        continue
    p = os.path.join(REPO, v["file"])
    s = open(p).read()
    if s.count(v["old"]) != 1:
        print(v["id"], "PATTERN matches", s.count(v["old"])); continue
    open(p, "w").write(s.replace(v["old"], v["new"]))
    try:
        r = subprocess.run([ROOT + "/check", "ALL"], capture_output=True, text=True, cwd=ROOT)
        res = {}
        for l in r.stdout.splitlines():
            m = re.match(r"^(C\d+) quick: .* exit (\d+)$", l)
            if m: res[m.group(1)] = int(m.group(2))
        viol = [k for k, x in res.items() if x == 1]
        inc = [k for k, x in res.items() if x == 3]
        unest = sorted({m.group(1) for m in re.finditer(r"obligation (\S+) \[\w+\]: NOT ESTABLISHED", r.stdout)})
        print("%-24s violations=%s (of which unestablished obligations: %s) no-facts=%s%s" % (v["id"], viol, unest, inc, "" if res else "  BUILD FAILED: " + r.stderr[-300:]))
        for l in r.stdout.splitlines():
            if l.startswith("  obligation") or l.startswith("INCONCLUSIVE"):
                print("      ", l.strip()[:230])
    finally:
        subprocess.run(["git", "-C", REPO, "checkout", "--", v["file"]])
