#!/usr/bin/env python3
"""run_seeded.py [ids...]: for each /verif/seeded/<id>/patch.diff apply it to /repo, run every claimed check's
quick_cmd, undo, and report which checks raise a VIOLATION (and which go INCONCLUSIVE). Writes seeded/<id>/detect.json."""
import json, os, subprocess, sys
ROOT = os.path.dirname(os.path.dirname(os.path.abspath(__file__)))
REPO = os.environ.get("VERIF_REPO", "/repo")
man = json.load(open(ROOT + "/MANIFEST.json"))
props = [c["property_id"] for c in man["checks"]]
extra = [a for a in sys.argv[1:] if a.startswith("+")]
ids = [a for a in sys.argv[1:] if not a.startswith("+")] or sorted(os.listdir(ROOT + "/seeded"))
props += [e[1:] for e in extra]
for i in ids:
    d = os.path.join(ROOT, "seeded", i)
    p = os.path.join(d, "patch.diff")
    if not os.path.exists(p):
        continue
    r = subprocess.run(["git", "-C", REPO, "apply", p], capture_output=True, text=True)
    if r.returncode != 0:
        print(i, "PATCH FAILED", r.stderr[:200]); continue
    res = {}
    try:
        r = subprocess.run([ROOT + "/check", "ALL"], capture_output=True, text=True, cwd=ROOT)
        cur = None
        buf = {}
        viol = []
        for l in r.stdout.splitlines():
            m = __import__("re").match(r"^(C\d+) quick: .* exit (\d+)$", l)
            if l.startswith("  obligation"):
                viol.append(l.strip()[:300])
            if m:
                res[m.group(1)] = {"exit": int(m.group(2)), "violations": viol[:6]}
                viol = []
        if not res:
            print(i, "CHECK FAILED", r.stderr[-400:])
    finally:
        subprocess.run(["git", "-C", REPO, "checkout", "--", "."])
    json.dump(res, open(os.path.join(d, "detect.json"), "w"), indent=1)
    meta = {}
    try: meta = json.load(open(os.path.join(d, "meta.json")))
    except Exception: pass
    det = [p_ for p_, x in res.items() if x["exit"] == 1]
    inc = [p_ for p_, x in res.items() if x["exit"] == 3]
    print("%-12s target=%s detected_by=%s inconclusive=%s" % (i, meta.get("property"), det, inc))
    for p_ in det[:3]:
        for v in res[p_]["violations"][:2]:
            print("      ", p_, v[:200])
