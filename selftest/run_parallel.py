#!/usr/bin/env python3
"""run_parallel.py <seeded|silent> [N] [ids...]: run the seeded changes / behaviour-preserving variants in N
parallel sandboxes.  Each sandbox is a scratch worktree of /repo (HEAD) plus a copy of /verif whose specimen
crate points at that worktree, both under /tmp/verif-par/<i>; they are removed afterwards.  Results of the
seeded runs (detect.json) are copied back into /verif/seeded/<id>/."""
import json, os, shutil, subprocess, sys

ROOT = os.path.dirname(os.path.dirname(os.path.abspath(__file__)))
BASE = "/tmp/verif-par"
mode = sys.argv[1]
n = int(sys.argv[2]) if len(sys.argv) > 2 and sys.argv[2].isdigit() else 4
ids = [a for a in sys.argv[3:]]
if mode == "seeded":
    allids = ids or sorted(d for d in os.listdir(os.path.join(ROOT, "seeded")) if os.path.exists(os.path.join(ROOT, "seeded", d, "patch.diff")))
else:
    allids = ids or [v["id"] for v in json.load(open(os.path.join(ROOT, "selftest", "silent.json")))]
chunks = [allids[i::n] for i in range(n)]
procs = []
os.makedirs(BASE, exist_ok=True)
for i, chunk in enumerate(chunks):
    if not chunk:
        continue
    sb = os.path.join(BASE, str(i))
    repo = os.path.join(sb, "repo")
    verif = os.path.join(sb, "verif")
    subprocess.run(["git", "-C", "/repo", "worktree", "remove", "--force", repo], capture_output=True)
    shutil.rmtree(sb, ignore_errors=True)
    os.makedirs(sb)
    subprocess.run(["git", "-C", "/repo", "worktree", "add", "--detach", repo, "HEAD", "-q"], check=True)
    subprocess.run(["rsync", "-a", "--exclude", ".git", "--exclude", ".cache/target", "--exclude", ".cache/facts", "--exclude", "replay", ROOT + "/", verif + "/"], check=True)
    ct = os.path.join(verif, "specimen", "Cargo.toml")
    s = open(ct).read().replace('"/repo', '"' + repo)
    open(ct, "w").write(s)
    env = dict(os.environ, VERIF_REPO=repo)
    script = "run_seeded.py" if mode == "seeded" else "run_silent.py"
    out = open(os.path.join(sb, "out.txt"), "w")
    procs.append((i, chunk, subprocess.Popen([sys.executable, os.path.join(verif, "selftest", script)] + chunk, cwd=verif, env=env, stdout=out, stderr=subprocess.STDOUT)))
for i, chunk, p in procs:
    p.wait()
    sb = os.path.join(BASE, str(i))
    sys.stdout.write(open(os.path.join(sb, "out.txt")).read())
    if mode == "seeded":
        for sid in chunk:
            src = os.path.join(sb, "verif", "seeded", sid, "detect.json")
            if os.path.exists(src):
                shutil.copy(src, os.path.join(ROOT, "seeded", sid, "detect.json"))
    subprocess.run(["git", "-C", "/repo", "worktree", "remove", "--force", os.path.join(sb, "repo")], capture_output=True)
    shutil.rmtree(sb, ignore_errors=True)
subprocess.run(["git", "-C", "/repo", "worktree", "prune"])
