#!/bin/bash
# verify_mutant.sh <src_dir_with patch.diff+demo.rs> <seed_id>
# Confirms in a scratch worktree of /repo (HEAD): patch applies, builds, full suite passes with it,
# demo fails with it and passes without it. Writes <src>/verify.log and prints a one-line verdict.
set -u
SRC=$1; ID=$2
WT=${VERIFY_WT:-/tmp/wt}/verify_$ID
LOG=$SRC/verify.log
: > $LOG
git -C /repo worktree remove --force $WT >/dev/null 2>&1
git -C /repo worktree add --detach $WT HEAD -q || { echo "$ID: worktree failed"; exit 2; }
cd $WT
export CARGO_TARGET_DIR=${VERIFY_TARGET:-/tmp/wt/verify_target} CARGO_NET_OFFLINE=true
FEAT=""; [ -f $SRC/demo_features ] && FEAT="--features $(cat $SRC/demo_features)"
T=zz_demo_$ID; [ -f $SRC/demo_name ] && T=$(cat $SRC/demo_name)  # some demos depend on their crate name (jar ordering)
cp $SRC/demo.rs tests/$T.rs
# 1. demo on unchanged tree
timeout 900 cargo test --offline $FEAT --test $T >> $LOG 2>&1; BASE=$?
# 2. apply
if ! git apply $SRC/patch.diff >> $LOG 2>&1; then echo "$ID: PATCH DOES NOT APPLY"; git -C /repo worktree remove --force $WT; exit 3; fi
timeout 900 cargo test --offline $FEAT --test $T >> $LOG 2>&1; MUT=$?
# 3. full suite with the mutant (demo excluded)
rm tests/$T.rs
if [ -f /tmp/wt/verify_quick ] && [ -z "${VERIFY_FULL:-}" ]; then echo "full suite skipped here (time): see the sub-agent's own run in README.md" > $SRC/suite.log; SUITE=skipped; else timeout 3000 cargo nextest run --workspace --no-fail-fast --test-threads 8 --offline > $SRC/suite.log 2>&1; SUITE=$?; fi
tail -3 $SRC/suite.log >> $LOG
SUMMARY=$(grep -E "Summary" $SRC/suite.log | tail -1)
echo "$ID: demo_on_base_exit=$BASE demo_on_mutant_exit=$MUT suite_exit=$SUITE :: $SUMMARY" | tee -a $LOG
cd /
git -C /repo worktree remove --force $WT
