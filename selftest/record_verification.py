#!/usr/bin/env python3
"""record_verification.py <verify-output-files...>: copy the one-line verdicts printed by verify_mutant.sh into
seeded/<id>/meta.json (fields `verified`, `verification`).  A timed-out demonstration (exit 124) is not a result."""
import glob, json, os, re, sys

ROOT = os.path.dirname(os.path.dirname(os.path.abspath(__file__)))
lines = []
for f in sys.argv[1:] or glob.glob("/tmp/wt/verify_*.out"):
    lines += open(f).read().splitlines()
res = {}
for l in lines:
    m = re.match(r"^(\S+): demo_on_base_exit=(\d+) demo_on_mutant_exit=(\d+) suite_exit=(\d+|skipped) :: *(.*)$", l)
    if m:
        cand = (int(m.group(2)), int(m.group(3)), m.group(4), m.group(5).strip())
        prev = res.get(m.group(1))
        good = lambda r: r[0] == 0 and r[1] not in (0, 124) and r[2] == "0"
        if prev is None or good(cand) or not good(prev) and cand[2] not in ("127", "101"):
            res[m.group(1)] = cand
n = 0
for sid, (b, mu, su, summ) in sorted(res.items()):
    p = os.path.join(ROOT, "seeded", sid, "meta.json")
    if not os.path.exists(p) or b == 124 or mu == 124:
        continue
    d = json.load(open(p))
    if d.get("manual") or (isinstance(d.get("verified"), str) and d["verified"].startswith(("rejected", "argument"))):
        continue
    demo_ok = b == 0 and mu != 0
    if su == "skipped":
        if d.get("verified") is True:
            continue
        d["verified"] = "demo only" if demo_ok else False
        d["verification"] = "demo on unchanged tree: exit %d; demo with the change: exit %d; full suite NOT re-run here (time) - it rests on the sub-agent's own run recorded in README.md" % (b, mu)
    else:
        su = int(su)
        if su == 124:
            if d.get("verified") is True:
                continue
            d["verified"] = "demo only" if demo_ok else False
            d["verification"] = "demo on unchanged tree: exit %d; demo with the change: exit %d; the full-suite run here timed out under machine load" % (b, mu)
        else:
            ok = demo_ok and su == 0
            if d.get("verified") is True and not ok:
                continue
            d["verified"] = True if ok else ("partial" if demo_ok else False)
            d["verification"] = "demo on unchanged tree: exit %d; demo with the change: exit %d; full suite with the change: exit %d (%s)" % (b, mu, su, summ)
    json.dump(d, open(p, "w"), indent=1)
    n += 1
print(n, "recorded")
