#!/usr/bin/env python3
"""Ad-hoc mutation helper: mut.py <file> <old> <new> -- <props...>
Applies a textual replacement to /repo (must match exactly once), runs ./check for each property,
then restores the file with git checkout. Used only to validate the checker (both directions)."""
import subprocess, sys, os
args = sys.argv[1:]
i = args.index("--")
f, old, new = args[:3]
props = args[i + 1:]
path = os.path.join("/repo", f)
s = open(path).read()
if s.count(old) != 1:
    print("pattern matches %d times" % s.count(old)); sys.exit(2)
open(path, "w").write(s.replace(old, new))
try:
    for p in props:
        r = subprocess.run(["/verif/check", p], capture_output=True, text=True)
        print("== %s exit %d" % (p, r.returncode))
        print("\n".join(l[:400] for l in r.stdout.splitlines()[-12:]))
        err = [l for l in r.stderr.splitlines() if "error" in l.lower()]
        if err: print("\n".join(err[:10]))
finally:
    subprocess.run(["git", "-C", "/repo", "checkout", "--", f])
